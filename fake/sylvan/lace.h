/* Instrumented stand-in for Sylvan/Lace ("fake Sylvan"): see sylvan.h */
#ifndef FAKE_LACE_H
#define FAKE_LACE_H
#include <stddef.h>
typedef struct WorkerP { int dummy; } WorkerP;
typedef struct Task { int dummy; } Task;
#define LACE_ME(x) ((void)0)
static void lace_exit(void) {}
static void lace_init(int n_workers, size_t dqsize) { (void) n_workers; (void) dqsize; }
typedef void (*lace_startup_cb)(WorkerP *, Task *, void *);
static void lace_startup(size_t stacksize, lace_startup_cb cb, void *arg) {
    (void) stacksize; (void) cb; (void) arg;
}
#endif
