/* Instrumented stand-in for the Sylvan library ("fake Sylvan").
 *
 * Same idea as /verif/fake/cudd/cudd.h: a Boolean function over at most
 * FS_NV variables is a 64-bit truth table indexed by variable number;
 * a BDD handle is (index of a hash-consed table) with Sylvan's
 * complement bit (bit 63). As in Sylvan the terminal is FALSE, TRUE is
 * its complement, a regular handle denotes a function that is false
 * under the all-false assignment (low edges are never complemented),
 * variable numbers are levels, and sylvan_low/sylvan_high transfer the
 * complement mark of the parent to the child.
 * `extref` counts sylvan_ref minus sylvan_deref per node; dereferencing
 * a node with extref 0 is counted in fakesylvan_stats[0].
 */
#ifndef FAKE_SYLVAN_H
#define FAKE_SYLVAN_H
#include <stdint.h>
#include <stdlib.h>
#include <string.h>
#include <stdio.h>
#include "lace.h"

#define FS_NV 6
#define FS_MAXNODES 65536
typedef uint64_t BDD;
typedef uint64_t BDDSET;
typedef uint32_t BDDVAR;
typedef uint64_t BDDMAP;

static const uint64_t sylvan_complement = 0x8000000000000000ULL;
static const uint64_t sylvan_false = 0;
static const uint64_t sylvan_true = 0x8000000000000000ULL;
static const uint64_t sylvan_invalid = 0x7fffffffffffffffULL;

long fakesylvan_stats[8];  /* 0 double release, 1 ops, 4 nodes created */
static uint64_t fs_tt_of[FS_MAXNODES];   /* regular tables: bit 0 == 0 */
static int fs_extref[FS_MAXNODES];
static int fs_n = 0;
static int fs_running = 0;

static const uint64_t FS_VAR[FS_NV] = {
    0xAAAAAAAAAAAAAAAAULL, 0xCCCCCCCCCCCCCCCCULL, 0xF0F0F0F0F0F0F0F0ULL,
    0xFF00FF00FF00FF00ULL, 0xFFFF0000FFFF0000ULL, 0xFFFFFFFF00000000ULL};

static void fs_fail(const char *msg) {
    fprintf(stderr, "fake Sylvan: %s\n", msg); abort();
}
static void fs_reset(void) {
    fs_n = 1; fs_tt_of[0] = 0; memset(fs_extref, 0, sizeof(fs_extref));
}
static uint64_t fs_tt(BDD b) {
    uint64_t i = b & ~sylvan_complement;
    if (i >= (uint64_t) fs_n) fs_fail("invalid handle");
    return (b & sylvan_complement) ? ~fs_tt_of[i] : fs_tt_of[i];
}
static BDD fs_node(uint64_t t) {
    int neg = (int) (t & 1);          /* value under the all-false assignment */
    if (neg) t = ~t;
    int i;
    for (i = 0; i < fs_n; i++) if (fs_tt_of[i] == t) break;
    if (i == fs_n) {
        if (fs_n >= FS_MAXNODES) fs_fail("node table full");
        fs_tt_of[fs_n++] = t;
        fakesylvan_stats[4]++;
    }
    return neg ? ((BDD) i | sylvan_complement) : (BDD) i;
}
static uint64_t fs_cof(uint64_t t, int i, int val) {
    uint64_t m = FS_VAR[i]; int s = 1 << i;
    if (val) { uint64_t c = t & m; return c | (c >> s); }
    uint64_t c = t & ~m; return c | (c << s);
}
static int fs_depends(uint64_t t, int i) { return fs_cof(t, i, 0) != fs_cof(t, i, 1); }
static int fs_top(uint64_t t) {
    for (int i = 0; i < FS_NV; i++) if (fs_depends(t, i)) return i;
    return -1;
}
#define FS_OP() (fakesylvan_stats[1]++)

/* ---- logistics */
static void sylvan_init_package(size_t a, size_t b, size_t c, size_t d) {
    (void) a; (void) b; (void) c; (void) d; fs_reset(); fs_running = 1;
}
static void sylvan_init_bdd(int granularity) { (void) granularity; }
static void sylvan_quit(void) { fs_running = 0; }

/* ---- node elements */
static BDD sylvan_ithvar(BDDVAR var) {
    if (var >= FS_NV) return sylvan_invalid;
    return fs_node(FS_VAR[var]);
}
static BDD sylvan_nithvar(BDD var) {
    if (var >= FS_NV) return sylvan_invalid;
    return fs_node(~FS_VAR[var]);
}
static int sylvan_isconst(BDD b) {
    return (b & ~sylvan_complement) == 0;
}
static int sylvan_isnode(BDD b) { return !sylvan_isconst(b); }
static BDDVAR sylvan_var(BDD b) {
    int i = fs_top(fs_tt(b));
    return i < 0 ? (BDDVAR) 0xffffff : (BDDVAR) i;
}
/* low/high of the regular node, with the mark of `b` transferred */
static BDD sylvan_low(BDD b) {
    uint64_t t = fs_tt(b & ~sylvan_complement);
    int i = fs_top(t);
    if (i < 0) return b;
    BDD c = fs_node(fs_cof(t, i, 0));
    return (b & sylvan_complement) ? (c ^ sylvan_complement) : c;
}
static BDD sylvan_high(BDD b) {
    uint64_t t = fs_tt(b & ~sylvan_complement);
    int i = fs_top(t);
    if (i < 0) return b;
    BDD c = fs_node(fs_cof(t, i, 1));
    return (b & sylvan_complement) ? (c ^ sylvan_complement) : c;
}
static size_t fs_dag(uint64_t *seen, int *ns, uint64_t t) {
    if (t & 1) t = ~t;
    if (t == 0) return 0;            /* the terminal is not counted */
    for (int k = 0; k < *ns; k++) if (seen[k] == t) return 0;
    if (*ns >= 4096) fs_fail("dag too large");
    seen[(*ns)++] = t;
    int i = fs_top(t);
    return 1 + fs_dag(seen, ns, fs_cof(t, i, 0)) + fs_dag(seen, ns, fs_cof(t, i, 1));
}
static size_t sylvan_nodecount(BDD a) {
    static uint64_t seen[4096]; int ns = 0;
    return fs_dag(seen, &ns, fs_tt(a));
}
static size_t sylvan_count_refs(void) {
    size_t n = 0;
    for (int i = 0; i < fs_n; i++) if (fs_extref[i] != 0) n++;
    return n;
}

/* ---- operators */
static BDD sylvan_not(BDD a) { return a ^ sylvan_complement; }
static BDD sylvan_and(BDD a, BDD b) { FS_OP(); return fs_node(fs_tt(a) & fs_tt(b)); }
static BDD sylvan_xor(BDD a, BDD b) { FS_OP(); return fs_node(fs_tt(a) ^ fs_tt(b)); }
static BDD sylvan_ite(BDD a, BDD b, BDD c) {
    FS_OP(); uint64_t g = fs_tt(a);
    return fs_node((g & fs_tt(b)) | (~g & fs_tt(c)));
}
static BDD sylvan_equiv(BDD a, BDD b) { FS_OP(); return fs_node(~(fs_tt(a) ^ fs_tt(b))); }
static BDD sylvan_or(BDD a, BDD b) { FS_OP(); return fs_node(fs_tt(a) | fs_tt(b)); }
static BDD sylvan_imp(BDD a, BDD b) { FS_OP(); return fs_node(~fs_tt(a) | fs_tt(b)); }
static BDD sylvan_biimp(BDD a, BDD b) { FS_OP(); return fs_node(~(fs_tt(a) ^ fs_tt(b))); }
static BDD sylvan_diff(BDD a, BDD b) { FS_OP(); return fs_node(fs_tt(a) & ~fs_tt(b)); }
static BDD sylvan_support(BDD b) {
    FS_OP();
    uint64_t t = fs_tt(b), c = ~(uint64_t)0;
    for (int i = 0; i < FS_NV; i++) if (fs_depends(t, i)) c &= FS_VAR[i];
    return fs_node(c);
}
static BDD sylvan_constrain(BDD f, BDD c) { FS_OP(); return fs_node(fs_tt(f) | ~fs_tt(c)); }
static BDD sylvan_restrict(BDD f, BDD c) { FS_OP(); return fs_node(fs_tt(f) | ~fs_tt(c)); }

/* maps: a small table of (variable -> BDD) lists */
#define FS_MAXMAPS 100000
static struct { int used; BDD val[FS_NV]; int has[FS_NV]; } fs_maps[1];
static BDD fs_map_val[FS_MAXMAPS][FS_NV];
static unsigned char fs_map_has[FS_MAXMAPS][FS_NV];
static int fs_nmaps = 0;
static BDDMAP sylvan_map_empty(void) {
    if (fs_nmaps >= FS_MAXMAPS) fs_nmaps = 0;      /* recycled */
    memset(fs_map_has[fs_nmaps], 0, FS_NV);
    return (BDDMAP) fs_nmaps++;
}
static BDDMAP sylvan_map_add(BDDMAP map, BDDVAR key, BDD value) {
    if (key >= FS_NV) fs_fail("map key out of range");
    if (fs_nmaps >= FS_MAXMAPS) fs_nmaps = 0;
    int m = fs_nmaps++;
    memcpy(fs_map_has[m], fs_map_has[map], FS_NV);
    memcpy(fs_map_val[m], fs_map_val[map], sizeof(BDD) * FS_NV);
    fs_map_has[m][key] = 1; fs_map_val[m][key] = value;
    return (BDDMAP) m;
}
static BDD sylvan_compose(BDD f, BDDMAP m) {
    FS_OP();
    uint64_t t = fs_tt(f), r = 0, vt[FS_NV];
    for (int i = 0; i < FS_NV; i++)
        vt[i] = fs_map_has[m][i] ? fs_tt(fs_map_val[m][i]) : FS_VAR[i];
    for (int k = 0; k < 64; k++) {
        int k2 = 0;
        for (int i = 0; i < FS_NV; i++) if ((vt[i] >> k) & 1) k2 |= (1 << i);
        if ((t >> k2) & 1) r |= ((uint64_t)1 << k);
    }
    return fs_node(r);
}

/* ---- enumeration */
static double sylvan_satcount(BDD b, BDDSET variables) {
    uint64_t t = fs_tt(b), v = fs_tt(variables);
    int nv = 0;
    for (int i = 0; i < FS_NV; i++) if (fs_depends(v, i)) nv++;
    double c = (double) __builtin_popcountll(t);
    for (int i = 0; i < FS_NV; i++) c /= 2.0;
    for (int i = 0; i < nv; i++) c *= 2.0;
    return c;
}
static BDD sylvan_pick_cube(BDD b) {
    uint64_t t = fs_tt(b);
    if (t == 0) return sylvan_false;
    int k = __builtin_ctzll(t);
    uint64_t c = ~(uint64_t)0;
    for (int i = 0; i < FS_NV; i++)
        if (fs_depends(t, i)) c &= ((k >> i) & 1) ? FS_VAR[i] : ~FS_VAR[i];
    return fs_node(c);
}
static double sylvan_pathcount(BDD b) { (void) b; return 1.0; }

/* ---- references */
static BDD sylvan_ref(BDD a) {
    uint64_t i = a & ~sylvan_complement;
    if (i != 0 && i < (uint64_t) fs_n) fs_extref[i]++;
    return a;
}
static void sylvan_deref(BDD a) {
    uint64_t i = a & ~sylvan_complement;
    if (i == 0 || i >= (uint64_t) fs_n) return;
    if (fs_extref[i] <= 0) { fakesylvan_stats[0]++; return; }
    fs_extref[i]--;
}

/* ---- quantification */
static BDD fs_abstract(BDD a, BDD qvars, int univ) {
    FS_OP();
    uint64_t t = fs_tt(a), c = fs_tt(qvars);
    for (int i = 0; i < FS_NV; i++) {
        if (!fs_depends(c, i)) continue;
        uint64_t x = fs_cof(t, i, 0), y = fs_cof(t, i, 1);
        t = univ ? (x & y) : (x | y);
    }
    return fs_node(t);
}
static BDD sylvan_exists(BDD a, BDD qvars) { return fs_abstract(a, qvars, 0); }
static BDD sylvan_forall(BDD a, BDD qvars) { return fs_abstract(a, qvars, 1); }
static BDD sylvan_and_exists(BDD a, BDD b, BDD qvars) {
    return fs_abstract(fs_node(fs_tt(a) & fs_tt(b)), qvars, 0);
}
static BDD sylvan_relprev(BDD a, BDD b, BDD qvars) { (void) a; (void) b; (void) qvars; return sylvan_invalid; }
static BDD sylvan_relnext(BDD a, BDD b, BDD qvars) { (void) a; (void) b; (void) qvars; return sylvan_invalid; }
static BDD sylvan_closure(BDD a) { (void) a; return sylvan_invalid; }

/* ---- instrumentation read by the harness through ctypes */
uint64_t fakesylvan_tt(uint64_t b) { return fs_tt((BDD) b); }
int fakesylvan_dump(uint64_t *buf, int cap) {
    int n = 0;
    for (int i = 0; i < fs_n; i++)
        if (fs_extref[i] != 0 && n + 2 <= cap) {
            buf[n++] = (uint64_t) i; buf[n++] = (uint64_t) (long) fs_extref[i];
        }
    return n / 2;
}
int fakesylvan_running(void) { return fs_running; }
#endif
