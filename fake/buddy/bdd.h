/* Instrumented stand-in for the BuDDy library ("fake BuDDy").
 * Same idea as /verif/fake/cudd/cudd.h. BuDDy has no complemented
 * edges: a BDD is an int, 0 = false, 1 = true, every other function
 * its own node (index into a hash-consed table of 64-bit truth tables
 * over <= FB_NV variables). `extref` counts bdd_addref minus bdd_delref
 * per node; a delref at 0 is counted in fakebuddy_stats[0].
 */
#ifndef FAKE_BUDDY_H
#define FAKE_BUDDY_H
#include <stdint.h>
#include <stdlib.h>
#include <string.h>
#include <stdio.h>

#define FB_NV 6
#define FB_MAXNODES 65536
typedef int BDD;
typedef struct s_bddPair { int map[FB_NV]; } bddPair;
static int BDD_VAR = -2;

long fakebuddy_stats[8];   /* 0 double release, 1 ops, 4 nodes created */
static uint64_t fb_tt_of[FB_MAXNODES];
static int fb_extref[FB_MAXNODES];
static int fb_n = 0, fb_running = 0, fb_varnum = 0;
static const uint64_t FB_VAR[FB_NV] = {
    0xAAAAAAAAAAAAAAAAULL, 0xCCCCCCCCCCCCCCCCULL, 0xF0F0F0F0F0F0F0F0ULL,
    0xFF00FF00FF00FF00ULL, 0xFFFF0000FFFF0000ULL, 0xFFFFFFFF00000000ULL};
static void fb_fail(const char *m) { fprintf(stderr, "fake BuDDy: %s\n", m); abort(); }
static uint64_t fb_tt(BDD b) {
    if (b < 0 || b >= fb_n) fb_fail("invalid node");
    return fb_tt_of[b];
}
static BDD fb_node(uint64_t t) {
    int i;
    for (i = 0; i < fb_n; i++) if (fb_tt_of[i] == t) return i;
    if (fb_n >= FB_MAXNODES) fb_fail("node table full");
    fb_tt_of[fb_n] = t; fakebuddy_stats[4]++;
    return fb_n++;
}
static uint64_t fb_cof(uint64_t t, int i, int val) {
    uint64_t m = FB_VAR[i]; int s = 1 << i;
    if (val) { uint64_t c = t & m; return c | (c >> s); }
    uint64_t c = t & ~m; return c | (c << s);
}
static int fb_depends(uint64_t t, int i) { return fb_cof(t, i, 0) != fb_cof(t, i, 1); }
#define FB_OP() (fakebuddy_stats[1]++)

static int bdd_init(int n, int c) {
    (void) n; (void) c;
    fb_n = 2; fb_tt_of[0] = 0; fb_tt_of[1] = ~(uint64_t)0;
    memset(fb_extref, 0, sizeof(fb_extref));
    fb_running = 1; fb_varnum = 0; return 0;
}
static int bdd_isrunning(void) { return fb_running; }
static void bdd_done(void) { fb_running = 0; }
static void bdd_setcacheratio(int r) { (void) r; }
static int bdd_setvarnum(int num) { fb_varnum = num; return 0; }
static int bdd_varnum(void) { return fb_varnum; }
static int bdd_autoreorder(int method) { (void) method; return 0; }
static int bdd_reorder_verbose(int v) { (void) v; return 0; }
static int bdd_intaddvarblock(int first, int last, int fixed) {
    (void) first; (void) last; (void) fixed; return 0;
}
static int bdd_getnodenum(void) {
    int n = 0;
    for (int i = 2; i < fb_n; i++) if (fb_extref[i] > 0) n++;
    return n;
}
static int bdd_getallocnum(void) { return fb_n; }
static BDD bdd_true(void) { return 1; }
static BDD bdd_false(void) { return 0; }
static BDD bdd_ithvar(int var) {
    if (var < 0 || var >= FB_NV) return 0;   /* BuDDy: bddfalse on error */
    return fb_node(FB_VAR[var]);
}
static int bdd_var2level(int var) { return var; }
static int bdd_level2var(int level) {
    if (level < 0 || level >= FB_NV) return BDD_VAR;
    return level;
}
static BDD bdd_not(BDD u) { FB_OP(); return fb_node(~fb_tt(u)); }
static BDD bdd_and(BDD u, BDD v) { FB_OP(); return fb_node(fb_tt(u) & fb_tt(v)); }
static BDD bdd_or(BDD u, BDD v) { FB_OP(); return fb_node(fb_tt(u) | fb_tt(v)); }
static BDD bdd_xor(BDD u, BDD v) { FB_OP(); return fb_node(fb_tt(u) ^ fb_tt(v)); }
static uint64_t fb_applyop(uint64_t a, uint64_t b, int op) {
    switch (op) {
    case 0: return a & b; case 1: return a ^ b; case 2: return a | b;
    case 3: return ~(a & b); case 4: return ~(a | b); case 5: return ~a | b;
    case 6: return ~(a ^ b); case 7: return a & ~b; case 8: return ~a & b;
    case 9: return a | ~b;
    }
    fb_fail("unknown apply operator"); return 0;
}
static uint64_t fb_abstract(uint64_t t, uint64_t c, int univ) {
    for (int i = 0; i < FB_NV; i++) {
        if (!fb_depends(c, i)) continue;
        uint64_t x = fb_cof(t, i, 0), y = fb_cof(t, i, 1);
        t = univ ? (x & y) : (x | y);
    }
    return t;
}
static BDD bdd_exist(BDD r, BDD var) { FB_OP(); return fb_node(fb_abstract(fb_tt(r), fb_tt(var), 0)); }
static BDD bdd_forall(BDD r, BDD var) { FB_OP(); return fb_node(fb_abstract(fb_tt(r), fb_tt(var), 1)); }
static BDD bdd_appex(BDD u, BDD v, int op, BDD var) {
    FB_OP(); return fb_node(fb_abstract(fb_applyop(fb_tt(u), fb_tt(v), op), fb_tt(var), 0));
}
static BDD bdd_appall(BDD u, BDD v, int op, BDD var) {
    FB_OP(); return fb_node(fb_abstract(fb_applyop(fb_tt(u), fb_tt(v), op), fb_tt(var), 1));
}
static BDD bdd_makeset(int *varset, int varnum) {
    FB_OP();
    uint64_t c = ~(uint64_t)0;
    for (int k = 0; k < varnum; k++) {
        if (varset[k] < 0 || varset[k] >= FB_NV) return 0;
        c &= FB_VAR[varset[k]];
    }
    return fb_node(c);
}
static bddPair *bdd_newpair(void) {
    bddPair *p = (bddPair *) malloc(sizeof(bddPair));
    for (int i = 0; i < FB_NV; i++) p->map[i] = i;
    return p;
}
static void bdd_freepair(bddPair *p) { free(p); }
static int bdd_setpairs(bddPair *pair, int *oldvar, int *newvar, int size) {
    for (int k = 0; k < size; k++) {
        if (oldvar[k] < 0 || oldvar[k] >= FB_NV || newvar[k] < 0 || newvar[k] >= FB_NV) return -1;
        pair->map[oldvar[k]] = newvar[k];
    }
    return 0;
}
static BDD bdd_replace(BDD r, bddPair *pair) {
    FB_OP();
    uint64_t t = fb_tt(r), out = 0;
    for (int k = 0; k < 64; k++) {
        int k2 = 0;
        for (int i = 0; i < FB_NV; i++) if ((k >> pair->map[i]) & 1) k2 |= (1 << i);
        if ((t >> k2) & 1) out |= ((uint64_t)1 << k);
    }
    return fb_node(out);
}
static int fb_dag(uint64_t *seen, int *ns, uint64_t t) {
    if (t == 0 || t == ~(uint64_t)0) return 0;
    for (int k = 0; k < *ns; k++) if (seen[k] == t) return 0;
    seen[(*ns)++] = t;
    int i = 0; while (!fb_depends(t, i)) i++;
    return 1 + fb_dag(seen, ns, fb_cof(t, i, 0)) + fb_dag(seen, ns, fb_cof(t, i, 1));
}
static int bdd_nodecount(BDD r) {
    static uint64_t seen[4096]; int ns = 0;
    return fb_dag(seen, &ns, fb_tt(r));
}
static BDD bdd_addref(BDD r) {
    if (r >= 2 && r < fb_n) fb_extref[r]++;
    return r;
}
static BDD bdd_delref(BDD r) {
    if (r < 2 || r >= fb_n) return r;
    if (fb_extref[r] <= 0) { fakebuddy_stats[0]++; return r; }
    fb_extref[r]--; return r;
}
/* instrumentation */
uint64_t fakebuddy_tt(int b) { return fb_tt(b); }
int fakebuddy_dump(uint64_t *buf, int cap) {
    int n = 0;
    for (int i = 2; i < fb_n; i++)
        if (fb_extref[i] != 0 && n + 2 <= cap) {
            buf[n++] = (uint64_t) i; buf[n++] = (uint64_t) (long) fb_extref[i];
        }
    return n / 2;
}
int fakebuddy_running(void) { return fb_running; }
#endif
