/* fake CUDD: stand-in for dd/_cudd_addendum.c (which needs CUDD
 * internals): transfer with renaming of variable indices. */
#include "cudd.h"
static DdNode *Cudd_bddTransferRename(DdManager *src, DdManager *dst,
        DdNode *f, int *renaming) {
    fk_op(dst); fk_use(f);
    uint64_t t = fk_tt(f), r = 0;
    int map[FK_NV];
    for (int i = 0; i < FK_NV; i++) map[i] = i;
    for (int i = 0; i < src->size; i++) {
        map[i] = renaming[i];
        if (fk_depends(t, i)) Cudd_bddIthVar(dst, renaming[i]);
    }
    for (int k = 0; k < 64; k++) {
        int k2 = 0;
        for (int i = 0; i < FK_NV; i++)
            if (map[i] >= 0 && map[i] < FK_NV && ((k >> map[i]) & 1))
                k2 |= (1 << i);
        if ((t >> k2) & 1) r |= ((uint64_t)1 << k);
    }
    return fk_node(dst, r);
}
