/* Instrumented stand-in for the CUDD library ("fake CUDD"), header-only.
 *
 * Purpose: let the real wrapper code of dd/cudd.pyx be compiled and
 * EXECUTED where CUDD itself is absent, so that a runtime monitor can
 * observe (a) which function of the operands every wrapper method
 * computes and (b) the reference discipline of the wrapper.
 *
 * Model: a Boolean function over at most FK_NV variables is a 64-bit
 * truth table indexed by CUDD variable *indices* (bit i of the
 * assignment number = value of the variable with index i), so the
 * meaning of a node does not depend on the variable order. Nodes are
 * hash-consed per manager: a regular pointer denotes a function that is
 * true under the all-true assignment, a pointer with its low bit set
 * denotes the complement (as in CUDD). T/E, index, levels and DAG sizes
 * are derived from the table under the manager's current order.
 *
 * Reference discipline: `extref` counts Cudd_Ref minus
 * Cudd_RecursiveDeref/Cudd_Deref issued by the wrapper for that node.
 * Releasing a node whose extref is 0 is counted in fakecudd_stats[0].
 * Cudd_CheckZeroRef returns the number of nodes with extref != 0.
 * When automatic reordering is enabled the fake rotates the variable
 * order every few operations (a hostile but legal CUDD behaviour).
 */
#ifndef FAKE_CUDD_H
#define FAKE_CUDD_H
#include <stdint.h>
#include <stdlib.h>
#include <string.h>
#include <stdio.h>

#define FK_NV 6
#define CUDD_VERSION "3.0.0-fake"
#define CUDD_CONST_INDEX 0x7fffffff
#define CUDD_OUT_OF_MEM -1

typedef unsigned int DdHalfWord;
struct DdManager;
typedef struct DdNode {
    DdHalfWord index;
    DdHalfWord ref;
    uint64_t tt;
    int extref;
    int permanent;
    struct DdNode *next;
    struct DdManager *mgr;
} DdNode;
typedef struct DdSubtable { unsigned int slots; unsigned int keys; } DdSubtable;
typedef struct DdManager {
    DdSubtable *subtables;
    unsigned int keys;
    unsigned int dead;
    double cachecollisions;
    double cacheinserts;
    double cachedeletions;
    /* fake */
    int size;
    int perm[FK_NV];      /* index -> level */
    int invperm[FK_NV];   /* level -> index */
    DdNode *nodes;
    DdNode *one;
    int autodyn;
    int gc_enabled;
    size_t max_memory;
    unsigned int max_cache_hard, min_hit, loose_up_to;
    double max_growth;
    int sift_max_swap, sift_max_var;
    unsigned int reorderings;
    long ops;
    DdSubtable sub[FK_NV + 1];
    struct DdManager *next_mgr;
} DdManager;
typedef struct DdGen {
    DdManager *mgr;
    uint64_t tt;
    int support[FK_NV];
    int nsup;
    long pos;        /* next minterm over the support to try */
    int cube[FK_NV];
    int empty;
} DdGen;
typedef int Cudd_ReorderingType;
typedef struct MtrNode_ { int dummy; } MtrNode;

/* exported instrumentation */
long fakecudd_stats[8];   /* 0 double release, 1 ops, 2 dead operand,
                             3 order rotations, 4 nodes created */
static DdManager *fk_managers = NULL;

static const uint64_t FK_VAR[FK_NV] = {
    0xAAAAAAAAAAAAAAAAULL, 0xCCCCCCCCCCCCCCCCULL, 0xF0F0F0F0F0F0F0F0ULL,
    0xFF00FF00FF00FF00ULL, 0xFFFF0000FFFF0000ULL, 0xFFFFFFFF00000000ULL};

#define Cudd_Not(p) ((DdNode *)((uintptr_t)(p) ^ (uintptr_t)1))
#define Cudd_Regular(p) ((DdNode *)((uintptr_t)(p) & ~(uintptr_t)1))
#define Cudd_IsComplement(p) ((int)((uintptr_t)(p) & (uintptr_t)1))

static uint64_t fk_tt(DdNode *p) {
    DdNode *r = Cudd_Regular(p);
    return Cudd_IsComplement(p) ? ~r->tt : r->tt;
}
static uint64_t fk_cof(uint64_t t, int i, int val) {
    uint64_t m = FK_VAR[i];
    int s = 1 << i;
    if (val) { uint64_t c = t & m; return c | (c >> s); }
    uint64_t c = t & ~m; return c | (c << s);
}
static int fk_depends(uint64_t t, int i) {
    return fk_cof(t, i, 0) != fk_cof(t, i, 1);
}
static DdHalfWord fk_top_index(DdManager *m, uint64_t t) {
    int best = -1;
    for (int i = 0; i < m->size; i++)
        if (fk_depends(t, i) && (best < 0 || m->perm[i] < m->perm[best]))
            best = i;
    return best < 0 ? CUDD_CONST_INDEX : (DdHalfWord) best;
}
static void fk_fail(const char *msg) {
    fprintf(stderr, "fake CUDD: %s\n", msg);
    abort();
}
static DdNode *fk_node(DdManager *m, uint64_t t) {
    int neg = !((t >> 63) & 1);
    if (neg) t = ~t;
    DdNode *n;
    for (n = m->nodes; n; n = n->next)
        if (n->tt == t) break;
    if (!n) {
        n = (DdNode *) calloc(1, sizeof(DdNode));
        n->tt = t; n->mgr = m; n->next = m->nodes; m->nodes = n;
        n->index = fk_top_index(m, t);
        m->keys++;
        fakecudd_stats[4]++;
    }
    return neg ? Cudd_Not(n) : n;
}
static void fk_reindex(DdManager *m) {
    for (DdNode *n = m->nodes; n; n = n->next)
        n->index = fk_top_index(m, n->tt);
}
static void fk_rotate(DdManager *m) {
    if (m->size < 2) return;
    /* level l gets the variable that was at level l+1 */
    int first = m->invperm[0];
    for (int l = 0; l + 1 < m->size; l++) m->invperm[l] = m->invperm[l + 1];
    m->invperm[m->size - 1] = first;
    for (int l = 0; l < m->size; l++) m->perm[m->invperm[l]] = l;
    fk_reindex(m);
    m->reorderings++;
    fakecudd_stats[3]++;
}
/* called at the start of every operation that may create nodes */
static void fk_op(DdManager *m) {
    fakecudd_stats[1]++;
    m->ops++;
    if (m->autodyn && m->ops % 7 == 0) fk_rotate(m);
}
static void fk_use(DdNode *p) {
    DdNode *r = Cudd_Regular(p);
    if (!r->permanent && r->extref == 0) fakecudd_stats[2]++;
}

/* ---- manager */
static DdManager *Cudd_Init(unsigned int numVars, unsigned int numVarsZ,
        unsigned int numSlots, unsigned int cacheSize, size_t maxMemory) {
    DdManager *m = (DdManager *) calloc(1, sizeof(DdManager));
    m->subtables = m->sub;
    m->gc_enabled = 1;
    m->max_memory = maxMemory;
    m->max_growth = 1.2;
    m->sift_max_swap = 2000000; m->sift_max_var = 1000;
    m->one = Cudd_Regular(fk_node(m, ~(uint64_t)0));
    m->one->permanent = 1;
    m->next_mgr = fk_managers; fk_managers = m;
    (void) numVars; (void) numVarsZ; (void) numSlots; (void) cacheSize;
    return m;
}
static void Cudd_Quit(DdManager *m) {
    DdManager **pp = &fk_managers;
    while (*pp && *pp != m) pp = &(*pp)->next_mgr;
    if (*pp) *pp = m->next_mgr;
    /* nodes are deliberately not freed (dangling use stays detectable) */
}
static DdNode *Cudd_ReadOne(DdManager *m) { return m->one; }
static DdNode *Cudd_ReadLogicZero(DdManager *m) { return Cudd_Not(m->one); }
static int Cudd_ReadSize(DdManager *m) { return m->size; }
static DdNode *fk_newvar(DdManager *m, int level) {
    if (m->size >= FK_NV) fk_fail("more than FK_NV variables");
    int i = m->size++;
    for (int j = 0; j < i; j++) if (m->perm[j] >= level) m->perm[j]++;
    m->perm[i] = level;
    for (int j = 0; j <= i; j++) m->invperm[m->perm[j]] = j;
    DdNode *v = fk_node(m, FK_VAR[i]);
    Cudd_Regular(v)->permanent = 1;
    fk_reindex(m);
    return v;
}
static DdNode *Cudd_bddNewVar(DdManager *m) { return fk_newvar(m, m->size); }
static DdNode *Cudd_bddNewVarAtLevel(DdManager *m, int level) {
    if (level < 0 || level > m->size) level = m->size;
    return fk_newvar(m, level);
}
static DdNode *Cudd_bddIthVar(DdManager *m, int i) {
    if (i < 0 || i >= FK_NV) return NULL;
    while (m->size <= i) fk_newvar(m, m->size);
    return fk_node(m, FK_VAR[i]);
}
static int Cudd_ReadPerm(DdManager *m, int i) {
    if (i == CUDD_CONST_INDEX) return CUDD_CONST_INDEX;
    if (i < 0 || i >= m->size) return -1;
    return m->perm[i];
}
static int Cudd_ReadInvPerm(DdManager *m, int level) {
    if (level == CUDD_CONST_INDEX) return CUDD_CONST_INDEX;
    if (level < 0 || level >= m->size) return -1;
    return m->invperm[level];
}

/* ---- node access */
static int Cudd_IsConstant(DdNode *p) {
    return Cudd_Regular(p)->index == CUDD_CONST_INDEX;
}
static unsigned int Cudd_NodeReadIndex(DdNode *p) {
    return Cudd_Regular(p)->index;
}
static DdNode *Cudd_T(DdNode *p) {
    DdNode *r = Cudd_Regular(p);
    if (r->index == CUDD_CONST_INDEX) return NULL;
    return fk_node(r->mgr, fk_cof(r->tt, (int) r->index, 1));
}
static DdNode *Cudd_E(DdNode *p) {
    DdNode *r = Cudd_Regular(p);
    if (r->index == CUDD_CONST_INDEX) return NULL;
    return fk_node(r->mgr, fk_cof(r->tt, (int) r->index, 0));
}
/* number of nodes of the (shared) diagram of a set of functions */
static int fk_dag(DdManager *m, uint64_t *seen, int *nseen, uint64_t t) {
    if (!((t >> 63) & 1)) t = ~t;
    for (int k = 0; k < *nseen; k++) if (seen[k] == t) return 0;
    if (*nseen >= 4096) fk_fail("dag too large");
    seen[(*nseen)++] = t;
    DdHalfWord i = fk_top_index(m, t);
    if (i == CUDD_CONST_INDEX) return 1;
    return 1 + fk_dag(m, seen, nseen, fk_cof(t, (int) i, 1))
             + fk_dag(m, seen, nseen, fk_cof(t, (int) i, 0));
}
static int Cudd_DagSize(DdNode *p) {
    static uint64_t seen[4096];
    int n = 0;
    return fk_dag(Cudd_Regular(p)->mgr, seen, &n, fk_tt(p));
}
static int Cudd_SharingSize(DdNode **a, int n) {
    static uint64_t seen[4096];
    int ns = 0, total = 0;
    for (int k = 0; k < n; k++)
        total += fk_dag(Cudd_Regular(a[k])->mgr, seen, &ns, fk_tt(a[k]));
    return total;
}

/* ---- operators */
static DdNode *Cudd_bddIte(DdManager *m, DdNode *f, DdNode *g, DdNode *h) {
    fk_op(m); fk_use(f); fk_use(g); fk_use(h);
    uint64_t a = fk_tt(f);
    return fk_node(m, (a & fk_tt(g)) | (~a & fk_tt(h)));
}
static DdNode *Cudd_bddAnd(DdManager *m, DdNode *f, DdNode *g) {
    fk_op(m); fk_use(f); fk_use(g);
    return fk_node(m, fk_tt(f) & fk_tt(g));
}
static DdNode *Cudd_bddOr(DdManager *m, DdNode *f, DdNode *g) {
    fk_op(m); fk_use(f); fk_use(g);
    return fk_node(m, fk_tt(f) | fk_tt(g));
}
static DdNode *Cudd_bddXor(DdManager *m, DdNode *f, DdNode *g) {
    fk_op(m); fk_use(f); fk_use(g);
    return fk_node(m, fk_tt(f) ^ fk_tt(g));
}
static DdNode *Cudd_bddXnor(DdManager *m, DdNode *f, DdNode *g) {
    fk_op(m); fk_use(f); fk_use(g);
    return fk_node(m, ~(fk_tt(f) ^ fk_tt(g)));
}
static uint64_t fk_support_mask(DdManager *m, uint64_t t) {
    uint64_t s = 0;
    for (int i = 0; i < m->size; i++) if (fk_depends(t, i)) s |= 1u << i;
    return s;
}
static DdNode *Cudd_Support(DdManager *m, DdNode *f) {
    fk_op(m); fk_use(f);
    uint64_t t = fk_tt(f), c = ~(uint64_t)0;
    for (int i = 0; i < m->size; i++) if (fk_depends(t, i)) c &= FK_VAR[i];
    return fk_node(m, c);
}
static DdNode *Cudd_bddComputeCube(DdManager *m, DdNode **vars, int *phase,
        int n) {
    fk_op(m);
    uint64_t c = ~(uint64_t)0;
    for (int k = 0; k < n; k++) {
        uint64_t v = fk_tt(vars[k]);
        c &= (phase == NULL || phase[k]) ? v : ~v;
    }
    return fk_node(m, c);
}
static DdNode *Cudd_CubeArrayToBdd(DdManager *m, int *array) {
    fk_op(m);
    uint64_t c = ~(uint64_t)0;
    for (int i = 0; i < m->size; i++) {
        if (array[i] == 1) c &= FK_VAR[i];
        else if (array[i] == 0) c &= ~FK_VAR[i];
    }
    return fk_node(m, c);
}
static int Cudd_BddToCubeArray(DdManager *m, DdNode *cube, int *array) {
    uint64_t t = fk_tt(cube), c = ~(uint64_t)0;
    if (t == 0) return 0;
    for (int i = 0; i < m->size; i++) {
        if (!fk_depends(t, i)) { array[i] = 2; continue; }
        if (fk_cof(t, i, 0) == 0) { array[i] = 1; c &= FK_VAR[i]; }
        else if (fk_cof(t, i, 1) == 0) { array[i] = 0; c &= ~FK_VAR[i]; }
        else return 0;
    }
    return c == t;
}
static int Cudd_PrintMinterm(DdManager *m, DdNode *f) {
    (void) m; (void) f; return 1;
}
/* cofactor with respect to a cube */
static uint64_t fk_restrict_cube(DdManager *m, uint64_t t, uint64_t cube) {
    for (int i = 0; i < m->size; i++) {
        if (!fk_depends(cube, i)) continue;
        t = fk_cof(t, i, fk_cof(cube, i, 0) == 0 ? 1 : 0);
    }
    return t;
}
static DdNode *Cudd_Cofactor(DdManager *m, DdNode *f, DdNode *g) {
    fk_op(m); fk_use(f); fk_use(g);
    if (fk_tt(g) == 0) return NULL;
    return fk_node(m, fk_restrict_cube(m, fk_tt(f), fk_tt(g)));
}
static DdNode *Cudd_bddCompose(DdManager *m, DdNode *f, DdNode *g, int v) {
    fk_op(m); fk_use(f); fk_use(g);
    if (v < 0 || v >= m->size) return NULL;
    uint64_t t = fk_tt(f), a = fk_tt(g);
    return fk_node(m, (a & fk_cof(t, v, 1)) | (~a & fk_cof(t, v, 0)));
}
static DdNode *Cudd_bddVectorCompose(DdManager *m, DdNode *f,
        DdNode **vector) {
    fk_op(m); fk_use(f);
    uint64_t t = fk_tt(f), r = 0, vt[FK_NV];
    for (int i = 0; i < m->size; i++) { fk_use(vector[i]); vt[i] = fk_tt(vector[i]); }
    for (int k = 0; k < 64; k++) {
        int k2 = k;
        for (int i = 0; i < m->size; i++) {
            if ((vt[i] >> k) & 1) k2 |= (1 << i); else k2 &= ~(1 << i);
        }
        if ((t >> k2) & 1) r |= ((uint64_t)1 << k);
    }
    return fk_node(m, r);
}
static DdNode *Cudd_bddRestrict(DdManager *m, DdNode *f, DdNode *c) {
    fk_op(m); fk_use(f); fk_use(c);
    /* any function that agrees with f where c holds */
    uint64_t t = fk_tt(f), ct = fk_tt(c);
    if (ct == 0) return NULL;
    return fk_node(m, t | ~ct);
}
static DdNode *fk_abstract(DdManager *m, DdNode *f, DdNode *cube, int univ) {
    fk_op(m); fk_use(f); fk_use(cube);
    uint64_t t = fk_tt(f), c = fk_tt(cube);
    for (int i = 0; i < m->size; i++) {
        if (!fk_depends(c, i)) continue;
        uint64_t a = fk_cof(t, i, 0), b = fk_cof(t, i, 1);
        t = univ ? (a & b) : (a | b);
    }
    return fk_node(m, t);
}
static DdNode *Cudd_bddExistAbstract(DdManager *m, DdNode *f, DdNode *cube) {
    return fk_abstract(m, f, cube, 0);
}
static DdNode *Cudd_bddUnivAbstract(DdManager *m, DdNode *f, DdNode *cube) {
    return fk_abstract(m, f, cube, 1);
}
static DdNode *Cudd_bddAndAbstract(DdManager *m, DdNode *f, DdNode *g,
        DdNode *cube) {
    fk_use(f); fk_use(g);
    DdNode *fg = fk_node(m, fk_tt(f) & fk_tt(g));
    Cudd_Regular(fg)->extref++;      /* internal temporary */
    DdNode *r = fk_abstract(m, fg, cube, 0);
    Cudd_Regular(fg)->extref--;
    return r;
}
static DdNode *Cudd_bddSwapVariables(DdManager *m, DdNode *f, DdNode **x,
        DdNode **y, int n) {
    fk_op(m); fk_use(f);
    int map[FK_NV];
    for (int i = 0; i < FK_NV; i++) map[i] = i;
    for (int k = 0; k < n; k++) {
        int a = (int) Cudd_Regular(x[k])->index;
        int b = (int) Cudd_Regular(y[k])->index;
        if (a >= FK_NV || b >= FK_NV) return NULL;
        map[a] = b; map[b] = a;
    }
    uint64_t t = fk_tt(f), r = 0;
    for (int k = 0; k < 64; k++) {
        int k2 = 0;
        for (int i = 0; i < FK_NV; i++)
            if ((k >> map[i]) & 1) k2 |= (1 << i);
        if ((t >> k2) & 1) r |= ((uint64_t)1 << k);
    }
    return fk_node(m, r);
}
static DdNode *cuddUniqueInter(DdManager *m, int index, DdNode *T,
        DdNode *E) {
    fk_op(m); fk_use(T); fk_use(E);
    if (index < 0 || index >= m->size) return NULL;
    uint64_t v = FK_VAR[index];
    return fk_node(m, (v & fk_tt(T)) | (~v & fk_tt(E)));
}

/* ---- cubes / counting */
static int fk_gen_fill(DdGen *g) {
    long total = 1L << g->nsup;
    while (g->pos < total) {
        long p = g->pos++;
        int k = 0;
        for (int j = 0; j < g->nsup; j++)
            if ((p >> j) & 1) k |= (1 << g->support[j]);
        /* other variables: the function does not depend on them */
        if ((g->tt >> k) & 1) {
            for (int i = 0; i < FK_NV; i++) g->cube[i] = 2;
            for (int j = 0; j < g->nsup; j++)
                g->cube[g->support[j]] = (int) ((p >> j) & 1);
            return 1;
        }
    }
    g->empty = 1;
    return 0;
}
static DdGen *Cudd_FirstCube(DdManager *m, DdNode *f, int **cube,
        double *value) {
    DdGen *g = (DdGen *) calloc(1, sizeof(DdGen));
    g->mgr = m; g->tt = fk_tt(f);
    for (int i = 0; i < m->size; i++)
        if (fk_depends(g->tt, i)) g->support[g->nsup++] = i;
    fk_gen_fill(g);
    *cube = g->cube; *value = 1.0;
    return g;
}
static int Cudd_NextCube(DdGen *g, int **cube, double *value) {
    int r = fk_gen_fill(g);
    *cube = g->cube; *value = 1.0;
    return r;
}
static int Cudd_IsGenEmpty(DdGen *g) { return g->empty; }
static int Cudd_GenFree(DdGen *g) { free(g); return 0; }
static double Cudd_CountMinterm(DdManager *m, DdNode *f, int nvars) {
    (void) m;
    uint64_t t = fk_tt(f);
    double c = (double) __builtin_popcountll(t);
    for (int i = 0; i < FK_NV; i++) c /= 2.0;
    for (int i = 0; i < nvars; i++) c *= 2.0;
    return c;
}

/* ---- references */
static void Cudd_Ref(DdNode *p) {
    DdNode *r = Cudd_Regular(p);
    r->extref++; r->ref++;
}
static void fk_release(DdNode *p) {
    DdNode *r = Cudd_Regular(p);
    if (r->extref <= 0) { fakecudd_stats[0]++; return; }
    r->extref--; if (r->ref) r->ref--;
}
static void Cudd_RecursiveDeref(DdManager *m, DdNode *p) {
    (void) m; fk_release(p);
}
static void Cudd_Deref(DdNode *p) { fk_release(p); }
static int Cudd_CheckZeroRef(DdManager *m) {
    int n = 0;
    for (DdNode *x = m->nodes; x; x = x->next) if (x->extref != 0) n++;
    return n;
}
static int Cudd_DebugCheck(DdManager *m) { (void) m; return 0; }
static DdNode *Cudd_bddTransfer(DdManager *src, DdManager *dst, DdNode *f) {
    fk_op(dst); fk_use(f);
    uint64_t t = fk_tt(f);
    for (int i = 0; i < src->size; i++)
        if (fk_depends(t, i)) Cudd_bddIthVar(dst, i);
    return fk_node(dst, t);
}

/* ---- info (inert) */
static int Cudd_PrintInfo(DdManager *m, FILE *fp) { (void) m; (void) fp; return 1; }
static long Cudd_ReadNodeCount(DdManager *m) {
    long n = 0;
    for (DdNode *x = m->nodes; x; x = x->next)
        if (x->extref > 0 || x->permanent) n++;
    return n;
}
static long Cudd_ReadPeakNodeCount(DdManager *m) { return (long) m->keys; }
static int Cudd_ReadPeakLiveNodeCount(DdManager *m) { return (int) m->keys; }
static size_t Cudd_ReadMemoryInUse(DdManager *m) { return m->keys * sizeof(DdNode); }
static unsigned int Cudd_ReadSlots(DdManager *m) { (void) m; return 256; }
static double Cudd_ReadUsedSlots(DdManager *m) { (void) m; return 0.5; }
static double Cudd_ExpectedUsedSlots(DdManager *m) { (void) m; return 0.5; }
static unsigned int Cudd_ReadCacheSlots(DdManager *m) { (void) m; return 256; }
static double Cudd_ReadCacheUsedSlots(DdManager *m) { (void) m; return 0.5; }
static double Cudd_ReadCacheLookUps(DdManager *m) { (void) m; return 0; }
static double Cudd_ReadCacheHits(DdManager *m) { (void) m; return 0; }

/* ---- reordering */
static int Cudd_ReduceHeap(DdManager *m, Cudd_ReorderingType h, int minsize) {
    (void) h; (void) minsize;
    fk_rotate(m);
    return 1;
}
static int Cudd_ShuffleHeap(DdManager *m, int *permutation) {
    int seen[FK_NV] = {0};
    for (int l = 0; l < m->size; l++) {
        int i = permutation[l];
        if (i < 0 || i >= m->size || seen[i]) return 0;
        seen[i] = 1;
    }
    for (int l = 0; l < m->size; l++) {
        m->invperm[l] = permutation[l];
        m->perm[permutation[l]] = l;
    }
    fk_reindex(m);
    m->reorderings++;
    return 1;
}
static void Cudd_AutodynEnable(DdManager *m, Cudd_ReorderingType method) {
    (void) method; m->autodyn = 1;
}
static void Cudd_AutodynDisable(DdManager *m) { m->autodyn = 0; }
static int Cudd_ReorderingStatus(DdManager *m, Cudd_ReorderingType *method) {
    *method = 14; return m->autodyn;
}
static unsigned int Cudd_ReadReorderings(DdManager *m) { return m->reorderings; }
static long Cudd_ReadReorderingTime(DdManager *m) { (void) m; return 0; }
static void Cudd_SetSiftMaxSwap(DdManager *m, int v) { m->sift_max_swap = v; }
static int Cudd_ReadSiftMaxSwap(DdManager *m) { return m->sift_max_swap; }
static void Cudd_SetSiftMaxVar(DdManager *m, int v) { m->sift_max_var = v; }
static int Cudd_ReadSiftMaxVar(DdManager *m) { return m->sift_max_var; }
static MtrNode fk_tree;
static MtrNode *Cudd_MakeTreeNode(DdManager *m, unsigned int low,
        unsigned int size, unsigned int type) {
    (void) m; (void) low; (void) size; (void) type; return &fk_tree;
}
static MtrNode *Cudd_ReadTree(DdManager *m) { (void) m; return NULL; }
static void Cudd_SetTree(DdManager *m, MtrNode *t) { (void) m; (void) t; }
static void Cudd_FreeTree(DdManager *m) { (void) m; }

/* ---- configuration */
static size_t Cudd_ReadMaxMemory(DdManager *m) { return m->max_memory; }
static size_t Cudd_SetMaxMemory(DdManager *m, size_t v) {
    size_t old = m->max_memory; m->max_memory = v; return old;
}
static unsigned int Cudd_ReadMaxCacheHard(DdManager *m) { return m->max_cache_hard; }
static unsigned int Cudd_ReadMaxCache(DdManager *m) { return m->max_cache_hard; }
static void Cudd_SetMaxCacheHard(DdManager *m, unsigned int v) { m->max_cache_hard = v; }
static double Cudd_ReadMaxGrowth(DdManager *m) { return m->max_growth; }
static void Cudd_SetMaxGrowth(DdManager *m, double v) { m->max_growth = v; }
static unsigned int Cudd_ReadMinHit(DdManager *m) { return m->min_hit; }
static void Cudd_SetMinHit(DdManager *m, unsigned int v) { m->min_hit = v; }
static void Cudd_EnableGarbageCollection(DdManager *m) { m->gc_enabled = 1; }
static void Cudd_DisableGarbageCollection(DdManager *m) { m->gc_enabled = 0; }
static int Cudd_GarbageCollectionEnabled(DdManager *m) { return m->gc_enabled; }
static unsigned int Cudd_ReadLooseUpTo(DdManager *m) { return m->loose_up_to; }
static void Cudd_SetLooseUpTo(DdManager *m, unsigned int v) { m->loose_up_to = v; }

/* ---- instrumentation read by the harness through ctypes */
uint64_t fakecudd_tt(uintptr_t p) { return fk_tt((DdNode *) p); }
int fakecudd_extref(uintptr_t p) { return Cudd_Regular((DdNode *) p)->extref; }
/* (regular pointer, extref) pairs of every node with extref != 0 */
int fakecudd_dump(uintptr_t *buf, int cap) {
    int n = 0;
    for (DdManager *m = fk_managers; m; m = m->next_mgr)
        for (DdNode *x = m->nodes; x; x = x->next)
            if (x->extref != 0 && n + 2 <= cap) {
                buf[n++] = (uintptr_t) x; buf[n++] = (uintptr_t) (long) x->extref;
            }
    return n / 2;
}
int fakecudd_managers(void) {
    int n = 0;
    for (DdManager *m = fk_managers; m; m = m->next_mgr) n++;
    return n;
}
#endif
