/* fake CUDD: see cudd.h */
#include "cudd.h"
