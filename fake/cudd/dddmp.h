/* fake CUDD: DDDMP entry points are inert (they report failure) */
#include "cudd.h"
typedef int Dddmp_VarInfoType;
typedef int Dddmp_VarMatchType;
static int Dddmp_cuddBddStore(DdManager *m, char *ddname, DdNode *f,
        char **varnames, int *auxids, int mode, Dddmp_VarInfoType varinfo,
        char *fname, FILE *fp) {
    (void) m; (void) ddname; (void) f; (void) varnames; (void) auxids;
    (void) mode; (void) varinfo; (void) fname; (void) fp;
    return 0;
}
static DdNode *Dddmp_cuddBddLoad(DdManager *m, Dddmp_VarMatchType vm,
        char **varmatchnames, int *varmatchauxids, int *varcomposeids,
        int mode, char *file, FILE *fp) {
    (void) m; (void) vm; (void) varmatchnames; (void) varmatchauxids;
    (void) varcomposeids; (void) mode; (void) file; (void) fp;
    return NULL;
}
