#!/venv/bin/python
"""Confirm a seeded change produced in a scratch worktree and keep it.

usage: harvest.py WORKTREE PROPERTY NAME

Confirms, in the worktree itself: (1) with the change the repository's
own suite gives the baseline result; (2) the demonstration fails with the
change and passes without it (git stash / stash pop). On success writes
/verif/seeded/NAME/{patch.diff, demo.py, NOTES.md, meta.json}.
"""
import json
import os
import shutil
import subprocess
import sys

VERIF = os.path.dirname(os.path.dirname(os.path.abspath(__file__)))
BASE = '9 failed, 105 passed, 5 errors'


def sh(cmd, cwd, env=None):
    return subprocess.run(cmd, cwd=cwd, shell=True, capture_output=True,
                          text=True, env=dict(os.environ, **(env or {})))


def main():
    wt, prop, name = sys.argv[1:4]
    env = dict(PYTHONPATH=wt, PYTHONDONTWRITEBYTECODE='1')
    diff = sh('git diff', wt).stdout
    if not diff.strip():
        print('no diff')
        return 1
    t = sh('/venv/bin/python -m pytest -q -p no:cacheprovider --timeout=900 '
           '--continue-on-collection-errors 2>&1 | tail -1', wt, env).stdout
    tests_ok = BASE in t
    d1 = sh('/venv/bin/python demo.py', wt, env)
    # (not `git stash`: the stash is shared by all worktrees of a
    # repository, and other agents may be using it concurrently)
    pf = os.path.join(wt, '.harvest.patch')
    open(pf, 'w').write(diff)
    r = sh(f'git apply -R {pf}', wt)
    if r.returncode:
        print('cannot reverse the change:', r.stderr[:300])
        return 1
    try:
        d0 = sh('/venv/bin/python demo.py', wt, env)
    finally:
        sh(f'git apply {pf}', wt)
        os.remove(pf)
    sh('rm -f bdd bdd.dot bdd.ext', wt)
    ok = tests_ok and d1.returncode != 0 and d0.returncode == 0
    print(f'tests: {t.strip()} ({"same as baseline" if tests_ok else "DIFFERENT"})')
    print(f'demo with change: exit {d1.returncode}: {d1.stdout.strip()[:300]}')
    print(f'demo without change: exit {d0.returncode}: {d0.stdout.strip()[:100]}')
    if not ok:
        print('NOT CONFIRMED')
        return 1
    out = os.path.join(VERIF, 'seeded', name)
    os.makedirs(out, exist_ok=True)
    open(os.path.join(out, 'patch.diff'), 'w').write(diff)
    shutil.copy(os.path.join(wt, 'demo.py'), out)
    notes = ''
    if os.path.exists(os.path.join(wt, 'NOTES.md')):
        shutil.copy(os.path.join(wt, 'NOTES.md'), out)
        notes = open(os.path.join(wt, 'NOTES.md')).read()
    meta = dict(
        property=prop, name=name, demo='demo.py',
        files_changed=sorted({l[6:] for l in diff.splitlines()
                              if l.startswith('+++ b/')}),
        needs_to_manifest=notes[:1500],
        confirmed=dict(
            repo_commit=sh('git rev-parse --short HEAD', wt).stdout.strip(),
            tests_cmd='PYTHONPATH=<worktree> /venv/bin/python -m pytest -q '
                      '-p no:cacheprovider --timeout=900 '
                      '--continue-on-collection-errors',
            tests_with_change=t.strip(),
            demo_with_change=dict(exit=d1.returncode,
                                  output=d1.stdout.strip()[:600]),
            demo_without_change=dict(exit=d0.returncode,
                                     output=d0.stdout.strip()[:200])))
    json.dump(meta, open(os.path.join(out, 'meta.json'), 'w'), indent=1)
    print('kept as', out)
    return 0


if __name__ == '__main__':
    sys.exit(main())
