#!/venv/bin/python
"""Run checks against the seeded changes kept under /verif/seeded/.

usage: seeded.py [NAME ...] [--all-checks] [--tier quick|thorough]
                 [--seeds 0,1] [--demo]

Each seeded/<NAME>/ holds patch.diff, a demonstration and meta.json
(`property`: the property it breaks). The patch is applied to a scratch
copy of /repo's working tree under /tmp (removed afterwards) and the
checks run with VERIF_REPO pointing at the copy, so /repo itself is never
touched and background runs are not disturbed. Evidence files written by
these runs are restored afterwards. Prints one line per (change, check).
"""
import json
import os
import shutil
import subprocess
import sys
import tempfile

VERIF = os.path.dirname(os.path.dirname(os.path.abspath(__file__)))


def main():
    args = [a for a in sys.argv[1:] if not a.startswith('--')]
    flags = sys.argv[1:]
    tier = 'quick'
    seeds = ['0']
    for i, a in enumerate(flags):
        if a == '--tier':
            tier = flags[i + 1]
        if a == '--seeds':
            seeds = flags[i + 1].split(',')
    args = [a for a in args if a not in (tier,) and a != ','.join(seeds)]
    root = os.path.join(VERIF, 'seeded')
    names = args or sorted(n for n in os.listdir(root)
                           if os.path.isdir(os.path.join(root, n)))
    props = sorted(
        json.loads(l)['id'] for l in open(os.path.join(VERIF,
                                                       'properties.jsonl')))
    ev = os.path.join(VERIF, 'evidence')
    bak = tempfile.mkdtemp(prefix='evbak_')
    shutil.copytree(ev, bak, dirs_exist_ok=True)
    results = dict()
    rp = os.path.join(root, 'RESULTS.json')
    saved = json.load(open(rp)) if os.path.exists(rp) else dict()
    try:
        for name in names:
            d = os.path.join(root, name)
            if not os.path.isdir(d):
                continue
            meta = json.load(open(os.path.join(d, 'meta.json')))
            scratch = tempfile.mkdtemp(prefix='seeded_')
            try:
                subprocess.run(['rsync', '-a', '--exclude', '.git',
                                '/repo/', scratch + '/'], check=True)
                r = subprocess.run(
                    ['patch', '-p1', '-s', '-i',
                     os.path.join(d, 'patch.diff')], cwd=scratch,
                    capture_output=True, text=True)
                if r.returncode:
                    print(f'{name}: PATCH DOES NOT APPLY: {r.stdout[:300]}')
                    continue
                if '--demo' in flags and meta.get('demo'):
                    r = subprocess.run(
                        ['/venv/bin/python', os.path.join(d, meta['demo'])],
                        cwd=scratch, capture_output=True, text=True,
                        env=dict(os.environ, PYTHONPATH=scratch))
                    print(f'{name}: demo exit={r.returncode}')
                checks = props if '--all-checks' in flags else \
                    meta['property'].split(',')
                for pid in checks:
                    for seed in seeds:
                        r = subprocess.run(
                            [os.path.join(VERIF, 'check'), pid, tier],
                            env=dict(os.environ, VERIF_REPO=scratch,
                                     VERIF_SEED=seed),
                            capture_output=True, text=True)
                        keys = sorted({
                            l.strip()[4:] for l in r.stdout.splitlines()
                            if l.strip().startswith('key=')})
                        verdict = {0: 'MISSED', 1: 'CAUGHT'}.get(
                            r.returncode, f'exit {r.returncode}')
                        if pid not in meta['property'].split(','):
                            verdict = {0: 'silent', 1: 'also-fires'}.get(
                                r.returncode, f'exit {r.returncode}')
                        results[(name, pid, seed)] = verdict
                        saved.setdefault(name, dict())[f'{pid}@{tier}:{seed}'] \
                            = dict(verdict=verdict, keys=keys[:6])
                        print(f'{name:28s} {pid} seed={seed} {verdict:10s} '
                              + '; '.join(keys)[:300], flush=True)
                        if r.returncode not in (0, 1):
                            print('\n'.join(r.stdout.splitlines()[-6:]))
            finally:
                shutil.rmtree(scratch, ignore_errors=True)
    finally:
        shutil.copytree(bak, ev, dirs_exist_ok=True)
        shutil.rmtree(bak)
    # merge into the file as it is now (several of these may run at once)
    import fcntl
    with open(os.path.join(tempfile.gettempdir(), 'seeded_results.lock'),
              'w') as lk:
        fcntl.flock(lk, fcntl.LOCK_EX)
        now = json.load(open(rp)) if os.path.exists(rp) else dict()
        for (name, pid, seed) in results:
            k = f'{pid}@{tier}:{seed}'
            now.setdefault(name, dict())[k] = saved[name][k]
        json.dump(now, open(rp, 'w'), indent=1, sort_keys=True)
    missed = [k for k, v in results.items() if v == 'MISSED']
    print(f'{len(results)} runs; missed: {missed}')
    return 1 if missed else 0


if __name__ == '__main__':
    sys.exit(main())
