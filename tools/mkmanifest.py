#!/venv/bin/python
"""Regenerate /verif/MANIFEST.json from the table below and validate it."""
import json
import os
import sys

HERE = os.path.dirname(os.path.dirname(os.path.abspath(__file__)))

CHECKS = {
    'C01': dict(
        technique='runtime monitoring: truth-table reference model over exhaustive operand sweeps + history driver with cache/ledger monitors',
        text='Every apply symbol on every ordered pair of the 256 functions of 3 variables, every ITE triple (2^24), all Function operators, under 2 (quick) / 6 (thorough) orders, then on managers with a past (emptied, collected, renumbered, swapped, warm cache) and in random histories over 4-8 variables; each result judged by an independent truth-table model. Held = no observed result differed.',
        note='Trusts vf/oracle.py (bit-parallel truth tables), CPython, and that BDD._succ/_level_to_var are the representation being judged.',
        ref='DESIGN.md section 3 C01'),
}

PENDING = {}

def _c(technique, text, note, ref, category='exploration'):
    return dict(technique=technique, text=text, note=note, ref=ref,
                category=category)


_TT = 'runtime monitoring: truth-table reference model'
_NOTE = 'Trusts vf/oracle.py (truth tables as Python ints), CPython, and that BDD._succ / the level map are the representation being judged; nothing is claimed beyond the executions listed in the evidence file.'
CHECKS.update({
    'C02': _c(_TT + ' + structural monitors M1-M3 at every quiescent point of generated histories; route-equality oracle',
              'All functions of 3 variables by 10 construction routes under all orders and both managers (same integer required), all/sampled functions of 4 variables with a bijection table<->reference check, and histories (ops, collections, swaps, sifting, declare/undeclare, copy, load) with own reducedness/ordering/uniqueness and pairwise-distinct-denotation monitors after every step.',
              _NOTE, 'DESIGN.md section 3 C02'),
    'C03': _c(_TT + ' over exhaustive function x subset sweeps',
              'Every function of 3 (and all/sampled of 4) variables x every subset x both quantifiers x orders through every entry point (names, lists, levels, apply forms, autoref, Function methods), fresh and long-lived managers; plus same-reference check when no quantified variable is in the support.',
              _NOTE, 'DESIGN.md section 3 C03'),
    'C04': _c(_TT + ' (cofactor / simultaneous substitution) over exhaustive sweeps',
              'n=3: all functions x all 27 partial assignments x all 64 renamings x every single-variable composition with every function; sampled vector compositions; n=4 all/sampled; operand table and counts re-checked.',
              _NOTE, 'DESIGN.md section 3 C04'),
    'C05': _c('runtime monitoring: independent reader of the documented grammar as oracle for add_expr over generated formulas',
              'Complete operator-pair/triple spelling matrices, binder templates, constants, comments, @n, random formulas to depth 5, each compared with an independent precedence-climbing evaluator and with its fully parenthesised form; to_expr round trip and independent reading of the printed text for all functions of <=3 (4: all/sampled) variables.',
              'Trusts vf/formula.py as a faithful reading of doc.md; ' + _NOTE, 'DESIGN.md section 3 C05'),
    'C10': _c(_TT + ' (support, model count, model set) over exhaustive sweeps',
              'Every function of <=3 (4: all/sampled) variables with and without a spare declared variable: support/is_essential, count for n up to support+3 and refusal below, pick_iter for every care set (disjoint cubes inside the models covering them), pick; dd.bdd, dd.autoref, Function methods.',
              _NOTE, 'DESIGN.md section 3 C10'),
    'C18': _c(_TT + ' applied to re-evaluated traversals and parsed graph exports',
              'Every function of <=3 (4: all/sampled) variables and sampled root sets: traversal via Function/succ, descendants/sizes vs own reachability, to_nx graph and DOT text re-read and evaluated.',
              _NOTE + ' DOT legend as documented in doc.md.', 'DESIGN.md section 3 C18'),
})

NOT_APPLICABLE = {
    'C19': 'C back ends (dd/cudd.pyx, cudd_zdd.pyx, sylvan.pyx, buddy.pyx) cannot be built or imported here (CUDD/Sylvan/BuDDy absent, nothing can be fetched): no execution exists for a runtime monitor to observe; the property is about wrapper source text (static analysis, a different technique family). See DESIGN.md section 5.',
}


def main():
    props = [json.loads(l)['id'] for l in
             open(os.path.join(HERE, 'properties.jsonl'))]
    checks = []
    for pid in props:
        c = CHECKS.get(pid)
        if not c:
            continue
        checks.append(dict(
            property_id=pid,
            quick_cmd=f'./check {pid} quick',
            thorough_cmd=f'./check {pid} thorough',
            evidence_file=f'/verif/evidence/{pid}.json',
            replay_cmd_template=f'./check {pid} --replay {{path}}',
            engine='vf',
            level_claimed=dict(
                category=c.get('category', 'exploration'),
                text=c['text'], design_ref=c['ref']),
            level_note=c['note'],
            technique=c['technique']))
    na = []
    for pid in props:
        if pid in CHECKS:
            continue
        reason = NOT_APPLICABLE.get(pid) or PENDING.get(pid) or \
            'check not built yet (work in progress, see DESIGN.md)'
        na.append(dict(property_id=pid, reason=reason))
    m = dict(
        version=1,
        setup_cmd='/venv/bin/python -c "import sys; sys.path.insert(0, \'/repo\'); import dd.bdd, dd.autoref, dd.mdd, dd.dddmp, networkx, ply" && chmod +x /verif/check',
        hooks=dict(
            guard='DD_VERIF',
            enable='no source hooks: every monitor is installed from the harness by wrapping class/module attributes after import (vf/monitors.py); checks import dd from $VERIF_REPO (default /repo) working tree',
            baseline_off_cmd='cd /repo && /venv/bin/python -m pytest -ra -q -p no:cacheprovider --timeout=900 --continue-on-collection-errors',
            source_commits=[],
            add_only=True),
        engines=[dict(
            name='vf', path='/verif/vf',
            serves_properties=sorted(CHECKS),
            kind_free_text='Python runtime-monitoring harness: truth-table reference model, structural/ledger/cache monitors at quiescent points, history driver, failpoints at the reordering request, rejected-call injection')],
        checks=checks,
        not_applicable=na,
        notes='Every check is `./check <ID> <quick|thorough>`; VERIF_SEED seeds all random choices; exit 0 held, exit 1 + VIOLATION line, exit 2 + INCONCLUSIVE line (deciding monitor never reached / shard timed out). Known findings: /verif/known_findings.json.')
    path = os.path.join(HERE, 'MANIFEST.json')
    with open(path, 'w') as f:
        json.dump(m, f, indent=1)
    try:
        import jsonschema
        schema = json.load(open('/root/.vp/MANIFEST.schema.json'))
        jsonschema.validate(m, schema)
        print('MANIFEST valid;', len(checks), 'checks;', len(na), 'n/a')
    except ImportError:
        print('jsonschema not available; not validated')


if __name__ == '__main__':
    sys.exit(main())
