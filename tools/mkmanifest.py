#!/venv/bin/python
"""Regenerate /verif/MANIFEST.json from the table below and validate it."""
import json
import os
import sys

HERE = os.path.dirname(os.path.dirname(os.path.abspath(__file__)))

CHECKS = {
    'C01': dict(
        technique='runtime monitoring: truth-table reference model over exhaustive operand sweeps + history driver with cache/ledger monitors',
        text='Every apply symbol on every ordered pair of the 256 functions of 3 variables, every ITE triple (2^24), all Function operators, under 2 (quick) / 6 (thorough) orders, then on managers with a past (emptied, collected, renumbered, swapped, warm cache) and in random histories over 4-8 variables; each result judged by an independent truth-table model. Held = no observed result differed.',
        note='Trusts vf/oracle.py (bit-parallel truth tables), CPython, and that BDD._succ/_level_to_var are the representation being judged.',
        ref='DESIGN.md section 3 C01'),
}

PENDING = {}

NOT_APPLICABLE = {
    'C19': 'C back ends (dd/cudd.pyx, cudd_zdd.pyx, sylvan.pyx, buddy.pyx) cannot be built or imported here (CUDD/Sylvan/BuDDy absent, nothing can be fetched): no execution exists for a runtime monitor to observe; the property is about wrapper source text (static analysis, a different technique family). See DESIGN.md section 5.',
}


def main():
    props = [json.loads(l)['id'] for l in
             open(os.path.join(HERE, 'properties.jsonl'))]
    checks = []
    for pid in props:
        c = CHECKS.get(pid)
        if not c:
            continue
        checks.append(dict(
            property_id=pid,
            quick_cmd=f'./check {pid} quick',
            thorough_cmd=f'./check {pid} thorough',
            evidence_file=f'/verif/evidence/{pid}.json',
            replay_cmd_template=f'./check {pid} --replay {{path}}',
            engine='vf',
            level_claimed=dict(
                category=c.get('category', 'exploration'),
                text=c['text'], design_ref=c['ref']),
            level_note=c['note'],
            technique=c['technique']))
    na = []
    for pid in props:
        if pid in CHECKS:
            continue
        reason = NOT_APPLICABLE.get(pid) or PENDING.get(pid) or \
            'check not built yet (work in progress, see DESIGN.md)'
        na.append(dict(property_id=pid, reason=reason))
    m = dict(
        version=1,
        setup_cmd='/venv/bin/python -c "import sys; sys.path.insert(0, \'/repo\'); import dd.bdd, dd.autoref, dd.mdd, dd.dddmp, networkx, ply" && chmod +x /verif/check',
        hooks=dict(
            guard='DD_VERIF',
            enable='no source hooks: every monitor is installed from the harness by wrapping class/module attributes after import (vf/monitors.py); checks import dd from $VERIF_REPO (default /repo) working tree',
            baseline_off_cmd='cd /repo && /venv/bin/python -m pytest -ra -q -p no:cacheprovider --timeout=900 --continue-on-collection-errors',
            source_commits=[],
            add_only=True),
        engines=[dict(
            name='vf', path='/verif/vf',
            serves_properties=sorted(CHECKS),
            kind_free_text='Python runtime-monitoring harness: truth-table reference model, structural/ledger/cache monitors at quiescent points, history driver, failpoints at the reordering request, rejected-call injection')],
        checks=checks,
        not_applicable=na,
        notes='Every check is `./check <ID> <quick|thorough>`; VERIF_SEED seeds all random choices; exit 0 held, exit 1 + VIOLATION line, exit 2 + INCONCLUSIVE line (deciding monitor never reached / shard timed out). Known findings: /verif/known_findings.json.')
    path = os.path.join(HERE, 'MANIFEST.json')
    with open(path, 'w') as f:
        json.dump(m, f, indent=1)
    try:
        import jsonschema
        schema = json.load(open('/root/.vp/MANIFEST.schema.json'))
        jsonschema.validate(m, schema)
        print('MANIFEST valid;', len(checks), 'checks;', len(na), 'n/a')
    except ImportError:
        print('jsonschema not available; not validated')


if __name__ == '__main__':
    sys.exit(main())
