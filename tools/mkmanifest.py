#!/venv/bin/python
"""Regenerate /verif/MANIFEST.json from the table below and validate it."""
import json
import os
import sys

HERE = os.path.dirname(os.path.dirname(os.path.abspath(__file__)))

CHECKS = {
    'C01': dict(
        technique='runtime monitoring: truth-table reference model over exhaustive operand sweeps + history driver with cache/ledger monitors',
        text='Every apply symbol on every ordered pair of the 256 functions of 3 variables, every ITE triple (2^24), all Function operators, under 2 (quick) / 6 (thorough) orders, then on managers with a past (emptied, collected, renumbered, swapped, warm cache) and in random histories over 4-8 variables; each result judged by an independent truth-table model. Held = no observed result differed.',
        note='Trusts vf/oracle.py (bit-parallel truth tables), CPython, and that BDD._succ/_level_to_var are the representation being judged.',
        ref='DESIGN.md section 3 C01'),
}

PENDING = {}

def _c(technique, text, note, ref, category='exploration'):
    return dict(technique=technique, text=text, note=note, ref=ref,
                category=category)


_TT = 'runtime monitoring: truth-table reference model'
_NOTE = 'Trusts vf/oracle.py (truth tables as Python ints; beyond 8 variables vf/big.py: pointwise evaluation of own definitions on ~60 sampled assignments per reference), CPython, and that BDD._succ / the level map are the representation being judged; nothing is claimed beyond the executions listed in the evidence file.'
CHECKS.update({
    'C02': _c(_TT + ' + structural monitors M1-M3 at every quiescent point of generated histories; route-equality oracle',
              'All functions of 3 variables by 10 construction routes under all orders and both managers (same integer required), all/sampled functions of 4 variables with a bijection table<->reference check, and histories (ops, collections, swaps, sifting, declare/undeclare, copy, load) with own reducedness/ordering/uniqueness and pairwise-distinct-denotation monitors after every step. Plus histories over 12-70 variables and thousands of nodes judged pointwise on sampled assignments (vf/big.py).',
              _NOTE, 'DESIGN.md section 3 C02'),
    'C03': _c(_TT + ' over exhaustive function x subset sweeps',
              'Every function of 3 (and all/sampled of 4) variables x every subset x both quantifiers x orders through every entry point (names, lists, levels, apply forms, autoref, Function methods), fresh and long-lived managers; plus same-reference check when no quantified variable is in the support. Plus histories over 12-70 variables and thousands of nodes judged pointwise on sampled assignments (vf/big.py), and operations on one function of ~130000 nodes (node numbers beyond 2**16).',
              _NOTE, 'DESIGN.md section 3 C03'),
    'C04': _c(_TT + ' (cofactor / simultaneous substitution) over exhaustive sweeps',
              'n=3: all functions x all 27 partial assignments x all 64 renamings x every single-variable composition with every function; sampled vector compositions; n=4 all/sampled; operand table and counts re-checked. Plus histories over 12-70 variables and thousands of nodes judged pointwise on sampled assignments (vf/big.py), and operations on one function of ~130000 nodes (node numbers beyond 2**16).',
              _NOTE, 'DESIGN.md section 3 C04'),
    'C05': _c('runtime monitoring: independent reader of the documented grammar as oracle for add_expr over generated formulas',
              'Complete operator-pair/triple spelling matrices, binder templates, constants, comments, @n, random formulas to depth 5 alternating between two managers (shared translator) with refused formulas and collections in between, each compared with an independent precedence-climbing evaluator and with its fully parenthesised form; to_expr round trip and independent reading of the printed text for all functions of <=3 (4: all/sampled) variables. Plus histories over 12-70 variables and thousands of nodes judged pointwise on sampled assignments (vf/big.py).',
              'Trusts vf/formula.py as a faithful reading of doc.md; ' + _NOTE, 'DESIGN.md section 3 C05'),
    'C10': _c(_TT + ' (support, model count, model set) over exhaustive sweeps',
              'Every function of <=3 (4: all/sampled) variables with and without a spare declared variable: support/is_essential, count for n up to support+3 and refusal below, pick_iter for every care set (disjoint cubes inside the models covering them), pick; dd.bdd, dd.autoref, Function methods; the same queries on every held reference after every step of random histories (collections, re-use of node numbers, reordering, declaration and removal of variables). Plus histories over 12-70 variables and thousands of nodes judged pointwise on sampled assignments (vf/big.py), and operations on one function of ~130000 nodes (node numbers beyond 2**16).',
              _NOTE, 'DESIGN.md section 3 C10'),
    'C06': _c('runtime monitoring: reference-count ledger (count == in-edges + harness holds) and exact-collection oracle at every quiescent point of exhaustive short and long random histories; temporal cache monitor',
              'Every sequence up to length 4 (quick) / 5-6 (thorough) over an 11-step alphabet of create/operate/hold/release/collect/rooted-collect/swap/sift on 3 variables for several function pairs, plus random histories of 400-5000 steps over 3-6 variables, a third with dynamic reordering enabled at a tiny threshold; after every step counts, reachability, reducedness, cache entries and held references are re-derived from the raw tables. Plus histories over 12-70 variables and thousands of nodes judged pointwise on sampled assignments (vf/big.py), and operations on one function of ~130000 nodes (node numbers beyond 2**16).',
              'The harness is the only holder of external references; ' + _NOTE, 'DESIGN.md section 3 C06'),
    'C07': _c('runtime monitoring: before/after snapshots of held references (number, truth table, external count) around every reordering + structural monitors + swap level-index post-condition',
              'n=3: every set of one or two of the 256 functions held x both swaps x target permutations x starting orders; n=1..5 sampled held sets with garbage: every adjacent swap, every/sampled target permutation, disjoint pairings, repeated sifting under 8 (quick) / 64 (thorough) hash seeds; dd.bdd and dd.autoref. Plus histories over 12-70 variables and thousands of nodes judged pointwise on sampled assignments (vf/big.py), and operations on one function of ~130000 nodes (node numbers beyond 2**16).',
              _NOTE, 'DESIGN.md section 3 C07'),
    'C08': _c('runtime monitoring: registry of live Function objects (class-attribute wrappers on __init__/__del__) as ledger; count == in-edges + live handles after every step; explicit shutdown check',
              'Random dd.autoref histories (constructions, all operators, traversals creating child handles, handle copies, copies between managers, pickle/JSON round trips, drops in random order, collections, reorderings), half with dynamic reordering at a lowered threshold; at the end all handles dropped: registry empty, only the terminal left, manager __del__ passes. Plus histories over 12-70 variables and thousands of nodes judged pointwise on sampled assignments (vf/big.py), and operations on one function of ~130000 nodes (node numbers beyond 2**16).',
              'Cyclic collector is off in shard processes so finalisers never run inside a ledger comparison; ' + _NOTE, 'DESIGN.md section 3 C08'),
    'C09': _c('runtime monitoring with fault injection: failpoint at dd.bdd._request_reordering fires the reordering signal at the k-th request, k enumerated 1..K+1 per operation on freshly rebuilt managers; truth-table oracle + M1-M7',
              'For 31 operation kinds (apply symbols, Function operators, ite, quantify, let x3, cube, var, add_expr, copy x3, load pickle/JSON, image, preimage, autoref find_or_add) x scenarios x every trigger position, for dd.autoref and dd.bdd; plus natural triggering at lowered and default thresholds with refused calls (C17 catalogue) in between: reordering must stay enabled. Plus histories over 12-70 variables and thousands of nodes judged pointwise on sampled assignments (vf/big.py).',
              'The signal originates only in _request_reordering (module global looked up at call time); ' + _NOTE, 'DESIGN.md section 3 C09', 'fault_enumeration'),
    'C11': _c(_TT + ' read by variable name in the target manager; source snapshot comparison; target ledger',
              'All 256 functions of 3 variables for every pair of source/target orders through six entry points (BDD.copy, copy_bdd, autoref, _copy.copy_bdd, copy_bdds_from), sampled 4-5 variable functions into targets with extra variables, pre-existing nodes, warm cache, dynamic reordering enabled and due; roots of copy_bdds_from as list/tuple/generator/iterator/dict view; copy_vars. Plus histories over 12-70 variables and thousands of nodes judged pointwise on sampled assignments (vf/big.py), and operations on one function of ~130000 nodes (node numbers beyond 2**16).',
              _NOTE, 'DESIGN.md section 3 C11'),
    'C12': _c(_TT + ' on loaded roots + outcome-class prediction from the documented loader rules; target ledger and structure monitors',
              'Sampled scenarios over format (pickle dd.bdd/dd.autoref, JSON, whole manager, roots=None) x target state (fresh, same, same order, other order, extra variables, subset) x levels/load_order x list/dict roots x reordered sources; refusals are legal where predicted. Plus histories over 12-70 variables and thousands of nodes judged pointwise on sampled assignments (vf/big.py), and operations on one function of ~130000 nodes (node numbers beyond 2**16).',
              _NOTE, 'DESIGN.md section 3 C12'),
    'C13': _c(_TT + ' (relational product) inside the documented input class',
              'One pair + free variable exhaustive (256 relations x sets x allowed qvar subsets x both quantifiers x orders), 2-3 pairs sampled, names or levels, qvars as every kind of iterable, dd.bdd functions and dd.autoref wrappers; non-adjacent orders for image.',
              'Documented usage: the preimage target is a set over unprimed variables; ' + _NOTE, 'DESIGN.md section 3 C13'),
    'C14': _c('runtime monitoring: order-map monitor (four views of the bijection) + held-reference tables over the union of names after every step of exhaustive short scripts and random histories',
              'Every script up to length 4 (quick) / 5 (thorough) over 13 declaration/undeclaration/conflict/build/release/swap steps on both managers, random interleavings over up to 7 names; conflicts must raise ValueError and change nothing.',
              _NOTE, 'DESIGN.md section 3 C14'),
    'C15': _c('runtime monitoring: evaluation of MDD references on every integer assignment against the BDD truth table; MDD ledger, canonicity and exact-collection monitors',
              'Conversions for 1-3 integer variables of 1-3 bits, every integer order, random bit orders, 1-4 referenced roots incl. complemented/constant; MDD apply/ite/collect histories on domains of size 2-4.',
              _NOTE, 'DESIGN.md section 3 C15'),
    'C16': _c('runtime monitoring: generated DDDMP files with an independent reader of the file text as oracle for dd.dddmp.load',
              'Random files: children-before-parents numberings, permid gaps, varinfo 0/1/3, with/without .orderedvarnames, complemented and constant roots; set of root tables of the returned manager == set evaluated from the text.',
              'DDDMP conventions as in the CUDD samples (terminal id 1, then-edge regular); ' + _NOTE, 'DESIGN.md section 3 C16'),
    'C17': _c('runtime monitoring with fault injection: ~60 kinds of rejected calls (bad arguments, syntax errors at every token position, damaged/conflicting files) injected between the steps of random histories; M1-M7 and the reordering setting right after each exception and at shutdown',
              'dd.bdd and dd.autoref histories, dynamic reordering off and on; every raising call is followed by the full monitor set, then the history continues and finally everything is released (only the terminal may remain).',
              'A rejected call is one that raises; ' + _NOTE, 'DESIGN.md section 3 C17', 'fault_enumeration'),
    'C19': _c('runtime monitoring of the compiled wrappers (Cython + gcc) against instrumented stand-ins of the C libraries: truth-table nodes give the oracle for apply, per-node external reference counters give the ledger for Function handles and temporaries',
              'dd/cudd.pyx, dd/sylvan.pyx and dd/buddy.pyx of the working tree are compiled against /verif/fake/{cudd,sylvan,buddy} and executed: apply with every symbol the wrapper accepts on every ordered pair of the 256 functions of 3 variables (quantifier forms on cubes), ite, Function operators, cross-check against dd.bdd; histories through each wrapper API with the stand-in as reference ledger after every step (CUDD: hostile automatic reordering), rejected calls, manager shutdown. dd/cudd_zdd.pyx is NOT executed.',
              'Trusted base: the stand-ins under /verif/fake/ (~900 lines of C on 64-bit truth tables), Cython 3.0.0 and gcc; a toolchain artefact (tracebacks leaked by Cython 3.0.0 on CPython 3.12) is neutralised by clearing dead frames, see DESIGN.md section 5. Three of the four wrappers are covered; dd/cudd_zdd.pyx is not.',
              'DESIGN.md section 5'),
    'C18': _c(_TT + ' applied to re-evaluated traversals and parsed graph exports',
              'Every function of <=3 (4: all/sampled) variables and sampled root sets: traversal via Function/succ, descendants/sizes vs own reachability, to_nx graph and DOT text re-read and evaluated; the same views of held references after every step of random histories (node numbers re-used, nodes relabelled by reordering). Plus histories over 12-70 variables and thousands of nodes judged pointwise on sampled assignments (vf/big.py), and operations on one function of ~130000 nodes (node numbers beyond 2**16).',
              _NOTE + ' DOT legend as documented in doc.md.', 'DESIGN.md section 3 C18'),
})

NOT_APPLICABLE = {}


def main():
    props = [json.loads(l)['id'] for l in
             open(os.path.join(HERE, 'properties.jsonl'))]
    checks = []
    for pid in props:
        c = CHECKS.get(pid)
        if not c:
            continue
        checks.append(dict(
            property_id=pid,
            quick_cmd=f'./check {pid} quick',
            thorough_cmd=f'./check {pid} thorough',
            evidence_file=f'/verif/evidence/{pid}.json',
            replay_cmd_template=f'./check {pid} --replay {{path}}',
            engine='vf',
            level_claimed=dict(
                category=c.get('category', 'exploration'),
                text=c['text'], design_ref=c['ref']),
            level_note=c['note'],
            technique=c['technique']))
    na = []
    for pid in props:
        if pid in CHECKS:
            continue
        reason = NOT_APPLICABLE.get(pid) or PENDING.get(pid) or \
            'check not built yet (work in progress, see DESIGN.md)'
        na.append(dict(property_id=pid, reason=reason))
    m = dict(
        version=1,
        setup_cmd='/venv/bin/python -c "import sys; sys.path.insert(0, \'/repo\'); import dd.bdd, dd.autoref, dd.mdd, dd.dddmp, networkx, ply, Cython" && gcc --version > /dev/null && chmod +x /verif/check',
        hooks=dict(
            guard='DD_VERIF',
            enable='no source hooks: every monitor is installed from the harness by wrapping class/module attributes after import (vf/monitors.py); checks import dd from $VERIF_REPO (default /repo) working tree',
            baseline_off_cmd='cd /repo && /venv/bin/python -m pytest -ra -q -p no:cacheprovider --timeout=900 --continue-on-collection-errors',
            source_commits=[],
            add_only=True),
        engines=[dict(
            name='vf', path='/verif/vf',
            serves_properties=sorted(CHECKS),
            kind_free_text='Python runtime-monitoring harness: truth-table reference model, structural/ledger/cache monitors at quiescent points, history driver, failpoints at the reordering request, rejected-call injection')],
        checks=checks,
        not_applicable=na,
        notes='Every check is `./check <ID> <quick|thorough>`; VERIF_SEED seeds all random choices; exit 0 held, exit 1 + VIOLATION line, exit 2 + INCONCLUSIVE line (deciding monitor never reached / shard timed out). Known findings: /verif/known_findings.json.')
    path = os.path.join(HERE, 'MANIFEST.json')
    with open(path, 'w') as f:
        json.dump(m, f, indent=1)
    try:
        import jsonschema
        schema = json.load(open('/root/.vp/MANIFEST.schema.json'))
        jsonschema.validate(m, schema)
        print('MANIFEST valid;', len(checks), 'checks;', len(na), 'n/a')
    except ImportError:
        print('jsonschema not available; not validated')


if __name__ == '__main__':
    sys.exit(main())
