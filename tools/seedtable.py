#!/venv/bin/python
"""Print the markdown table of seeded changes vs. checks (DESIGN.md s.8)
from seeded/*/meta.json and seeded/RESULTS.json."""
import json
import os

VERIF = os.path.dirname(os.path.dirname(os.path.abspath(__file__)))
root = os.path.join(VERIF, 'seeded')
res = json.load(open(os.path.join(root, 'RESULTS.json')))
print('| change | breaks | where | needs to manifest | caught by (quick) | '
      'also fires |')
print('|---|---|---|---|---|---|')
for name in sorted(os.listdir(root)):
    d = os.path.join(root, name)
    if not os.path.isdir(d):
        continue
    m = json.load(open(os.path.join(d, 'meta.json')))
    r = res.get(name, {})
    own = m['property']
    caught, also = [], []
    for k, v in sorted(r.items()):
        pid = k.split('@')[0]
        if v['verdict'] == 'CAUGHT':
            keys = sorted({x.split('|', 1)[1] for x in v['keys']})[:2]
            caught.append(f"{pid}: {'; '.join(keys)}")
        elif v['verdict'] == 'MISSED':
            caught.append(f'{pid}: MISSED')
        elif v['verdict'] == 'also-fires':
            also.append(pid)
    what = m.get('summary') or ''
    print(f"| {name} | {own} | {', '.join(m['files_changed'])} | {what} | "
          f"{'<br>'.join(dict.fromkeys(caught))} | "
          f"{', '.join(dict.fromkeys(also))} |")
