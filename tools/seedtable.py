#!/venv/bin/python
"""Markdown table of seeded changes vs. checks (DESIGN.md section 8) from
seeded/*/meta.json and seeded/RESULTS.json.

usage: seedtable.py            print the table
       seedtable.py --design   rewrite it between the markers in DESIGN.md
"""
import json
import os
import sys

VERIF = os.path.dirname(os.path.dirname(os.path.abspath(__file__)))
ROOT = os.path.join(VERIF, 'seeded')


def table():
    res = json.load(open(os.path.join(ROOT, 'RESULTS.json')))
    out = ['| change | breaks | where | what it is / needs to manifest | '
           'caught by (quick) | also fires |',
           '|---|---|---|---|---|---|']
    for name in sorted(os.listdir(ROOT)):
        d = os.path.join(ROOT, name)
        if not os.path.isdir(d):
            continue
        m = json.load(open(os.path.join(d, 'meta.json')))
        r = res.get(name, {})
        caught, also = [], []
        for k, v in sorted(r.items()):
            pid = k.split('@')[0]
            if v['verdict'] == 'CAUGHT':
                keys = sorted({x.split('|', 1)[1] for x in v['keys']})[:2]
                caught.append(f"{pid}: {'; '.join(keys)}")
            elif v['verdict'] == 'MISSED':
                caught.append(f'{pid}: MISSED')
            elif v['verdict'] == 'also-fires':
                also.append(pid)
        what = (m.get('summary') or '').replace('|', '\\|')
        caught = [c.replace('|', '\\|') for c in dict.fromkeys(caught)]
        out.append(
            f"| {name} | {m['property']} | {', '.join(m['files_changed'])} | "
            f"{what} | {'<br>'.join(caught)} | "
            f"{', '.join(dict.fromkeys(also))} |")
    return '\n'.join(out) + '\n'


def main():
    t = table()
    if '--design' not in sys.argv:
        sys.stdout.write(t)
        return
    p = os.path.join(VERIF, 'DESIGN.md')
    s = open(p).read()
    begin, end = '<!-- seedtable:begin -->', '<!-- seedtable:end -->'
    a = s.index(begin) + len(begin)
    b = s.index(end)
    open(p, 'w').write(s[:a] + '\n' + t + s[b:])


if __name__ == '__main__':
    main()
