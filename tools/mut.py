#!/venv/bin/python
"""Ad-hoc mutation probe: copy /repo to a scratch dir, replace OLD by NEW
in FILE (exactly one occurrence), run the given checks against the copy.

usage: mut.py FILE OLD NEW [FILE OLD NEW ...] ID[,ID...] [--tests]
Evidence files written by these runs are restored afterwards.
"""
import os
import shutil
import subprocess
import sys
import tempfile

VERIF = os.path.dirname(os.path.dirname(os.path.abspath(__file__)))


def main():
    args = [a for a in sys.argv[1:] if not a.startswith('--')]
    flags = [a for a in sys.argv[1:] if a.startswith('--')]
    ids = args[-1]
    triples = [args[i:i + 3] for i in range(0, len(args) - 1, 3)]
    d = tempfile.mkdtemp(prefix='mut_')
    try:
        subprocess.run(['rsync', '-a', '--exclude', '.git', '/repo/', d + '/'],
                       check=True)
        for f, old, new in triples:
            old = old.encode().decode('unicode_escape')
            new = new.encode().decode('unicode_escape')
            p = os.path.join(d, f)
            s = open(p).read()
            if s.count(old) != 1:
                print('OLD occurs', s.count(old), 'times:', old[:60])
                return 2
            open(p, 'w').write(s.replace(old, new))
        if '--tests' in flags:
            r = subprocess.run(
                ['/venv/bin/python', '-m', 'pytest', '-q', '-p',
                 'no:cacheprovider', '--timeout=900',
                 '--continue-on-collection-errors'],
                cwd=d, capture_output=True, text=True,
                env=dict(os.environ, PYTHONPATH=d))
            print('TESTS:', r.stdout.strip().splitlines()[-1])
        ev = os.path.join(VERIF, 'evidence')
        bak = tempfile.mkdtemp(prefix='evbak_')
        shutil.copytree(ev, bak, dirs_exist_ok=True)
        for pid in ids.split(','):
            r = subprocess.run(
                [os.path.join(VERIF, 'check'), pid, 'quick'],
                env=dict(os.environ, VERIF_REPO=d), capture_output=True,
                text=True)
            lines = r.stdout.strip().splitlines()
            keys = sorted({l.strip() for l in lines if l.strip().startswith('key=')})
            print(f'{pid}: exit={r.returncode}', '; '.join(keys)[:600])
            if r.returncode not in (0, 1):
                print('\n'.join(lines[-8:]))
        shutil.copytree(bak, ev, dirs_exist_ok=True)
        shutil.rmtree(bak)
    finally:
        shutil.rmtree(d, ignore_errors=True)


if __name__ == '__main__':
    sys.exit(main())
