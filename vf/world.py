"""History driver: a manager, a pool of held references with their
recorded truth tables, and a menu of steps. Works for `dd.bdd.BDD`
(references are ints, held with incref/decref through a ledger) and for
`dd.autoref.BDD` (references are `Function` objects, held by keeping the
object alive; the live-handle registry M6 is the ledger).
"""
import collections
import gc
import itertools
import os

from vf import formula, monitors
from vf.common import Violation, EVENTS
from vf.oracle import (Space, Denoter, build, raw, random_table, BINOPS,
                       QUANT_OPS)

BIN_SYMS = sorted(BINOPS)
QUANT_SYMS = sorted(QUANT_OPS)


class Held:
    __slots__ = ('h', 'tt')

    def __init__(self, h, tt):
        self.h = h
        self.tt = tt


def node_of(h):
    return h if isinstance(h, int) else h.node


class View:
    """What the sweep-style judges of C10/C18 expect of an `AllFunctions`
    manager, taken from a `World` at a quiescent point."""

    def __init__(self, w):
        self.bdd = w.raw
        self.sp = w.sp
        self.names = tuple(w.sp.names)
        self.order = tuple(sorted(w.raw.vars, key=w.raw.vars.get))
        if w.kind == 'autoref':
            self.ab = w.bdd
        else:
            ab = w._a.BDD()
            ab._bdd = w.raw
            ab.vars = w.raw.vars
            self.ab = ab


class World:
    """One manager under observation."""

    def __init__(self, ctx, rng, names, kind='bdd', order=None,
                 strict=True, registry=None, reordering=False,
                 watch_cache=False):
        import dd.bdd as _b
        import dd.autoref as _a
        self.ctx = ctx
        self.rng = rng
        self.kind = kind
        self.strict = strict
        self._b = _b
        self._a = _a
        names = list(names)
        if order is None:
            order = names[:]
            rng.shuffle(order)
        levels = {v: i for i, v in enumerate(order)}
        # hostile default: the insertion order of `vars` differs from
        # the level order (as it does after any reordering)
        keys = list(levels)
        rng.shuffle(keys)
        levels = {v: levels[v] for v in keys}
        self.bdd = _b.BDD(levels) if kind == 'bdd' else _a.BDD(levels)
        self.raw = raw(self.bdd)
        self.sp = Space(names)
        self.pool = []
        self.ext = collections.Counter()   # dd.bdd ledger
        self.registry = registry           # autoref ledger (M6)
        self.reordering = reordering
        if reordering:
            self.bdd.configure(reordering=True)
        self.watch = monitors.IteTableWatch() if watch_cache else None
        self.log = []
        self.site = 'init'
        self.fresh_names = (f'v{i}' for i in itertools.count())
        self.semantic_cache = True
        self.canon = True
        self.build_names = None

    # ---------------------------------------------------------- holding
    def hold(self, h, tt):
        if self.kind == 'bdd':
            self.raw.incref(h)
            self.ext[abs(h)] += 1
        self.pool.append(Held(h, tt))

    def drop(self, idx):
        e = self.pool.pop(idx)
        if self.kind == 'bdd':
            self.raw.decref(e.h)
            self.ext[abs(e.h)] -= 1
            if not self.ext[abs(e.h)]:
                del self.ext[abs(e.h)]
        e.h = None

    def drop_all(self):
        while self.pool:
            self.drop(len(self.pool) - 1)

    def external(self):
        if self.kind == 'bdd':
            return self.ext
        ext = collections.Counter(self.registry.external(self.raw))
        return ext

    def pick(self):
        return self.rng.choice(self.pool)

    def wrap(self, u):
        """Turn a raw signed int into this world's reference type."""
        if self.kind == 'bdd':
            return u
        return self._a.Function(u, self.bdd)

    # ---------------------------------------------------------- judging
    def den(self):
        return Denoter(self.raw, self.sp)

    def check(self, site=None):
        """Quiescent-point monitors; raises Violation with the site."""
        site = site or self.site
        # Finalisers of `Function` objects in reference cycles may run
        # whenever the cyclic collector does; run it now and keep it off
        # while the ledger snapshot and the counts are compared, so that
        # the monitor's state is read atomically with what it shadows.
        # (the shard processes run with the automatic collector off, see
        # vf/run.py; an explicit collection now and then bounds memory)
        self._nchecks = getattr(self, '_nchecks', 0) + 1
        if self.kind == 'autoref' and self._nchecks % 128 == 0:
            gc.collect()
        gc_was = gc.isenabled()
        gc.disable()
        try:
            return self._check(site)
        finally:
            if gc_was:
                gc.enable()

    def _check(self, site):
        try:
            den = monitors.check_all(
                self.bdd, external=self.external(),
                pool=[(node_of(e.h), e.tt) for e in self.pool],
                semantic_cache=self.semantic_cache,
                watch=self.watch, canon=self.canon)
        except Violation as v:
            v.site = site
            raise
        except (KeyError, TypeError, ValueError, IndexError,
                AttributeError) as e:
            raise Violation(site, 'monitor-crashed-on-malformed-state',
                            repr(e))
        self.ctx.count('quiescent_checks')
        if monitors.UNREADABLE_TABLES[0]:
            self.ctx.counters['computed_tables_in_unknown_format'] = \
                monitors.UNREADABLE_TABLES[0]
        return den

    def accept(self, site, h, expected, hold=True, strict=None):
        """Judge the result `h` of an operation against `expected`
        (a table, or None to record the observed denotation)."""
        strict = self.strict if strict is None else strict
        u = node_of(h)
        if not isinstance(u, int) or isinstance(u, bool) or \
                abs(u) not in self.raw._succ:
            raise Violation(site, 'result-not-a-stored-node', repr(u))
        got = self.den()(u)
        if expected is not None and strict and got != expected:
            raise Violation(site, 'wrong-result', dict(
                got=self.sp.fmt(got), want=self.sp.fmt(expected),
                names=self.sp.names, order=dict(self.raw.vars)))
        if hold:
            self.hold(h, got if expected is None or not strict else expected)
        return got

    # ---------------------------------------------------------- building
    def build(self, t):
        """Node-by-node construction (no `ite`)."""
        if self.kind == 'bdd':
            return build(self.raw, t, self.sp)
        return self._build_autoref(t)

    def _build_autoref(self, t):
        bdd = self.bdd
        sp = self.sp
        n = len(bdd.vars)
        memo = dict()

        def rec(level, t):
            if t == sp.full:
                return bdd.true
            if t == 0:
                return bdd.false
            key = (level, t)
            if key in memo:
                return memo[key]
            while True:
                v = bdd.var_at_level(level)
                lo, hi = sp.cof(t, v, 0), sp.cof(t, v, 1)
                if lo != hi:
                    break
                level += 1
            p = rec(level + 1, lo)
            q = rec(level + 1, hi)
            r = bdd.find_or_add(v, p, q)
            memo[key] = r
            return r
        try:
            return rec(0, t)
        finally:
            memo.clear()

    def build_wrapper(self, t):
        """Node by node through `dd.autoref.BDD.find_or_add(var, low,
        high)`, bottom-up along the order the manager has when the
        construction starts (the wrapper creates nodes with reordering
        requests suspended, so the order cannot change on the way)."""
        bdd = self.bdd
        sp = self.sp
        order = sorted(self.raw.vars, key=self.raw.vars.get)
        memo = dict()

        def rec(i, t):
            if t == sp.full:
                return bdd.true
            if t == 0:
                return bdd.false
            key = (i, t)
            if key in memo:
                return memo[key]
            while True:
                v = order[i]
                lo, hi = sp.cof(t, v, 0), sp.cof(t, v, 1)
                if lo != hi:
                    break
                i += 1
            p = rec(i + 1, lo)
            q = rec(i + 1, hi)
            r = bdd.find_or_add(v, p, q)
            memo[key] = r
            return r
        try:
            return rec(0, t)
        finally:
            memo.clear()

    def build_public(self, t):
        """Construction through decorated public operations only
        (`var`, `ite`), holding intermediates; safe under dynamic
        reordering."""
        bdd = self.bdd
        sp = self.sp
        names = [v for v in sp.names]
        tmp = []

        def keep(h):
            if self.kind == 'bdd':
                self.raw.incref(h)
            tmp.append(h)
            return h

        def rec(i, t):
            if t == sp.full:
                return bdd.true
            if t == 0:
                return bdd.false
            while True:
                v = names[i]
                lo, hi = sp.cof(t, v, 0), sp.cof(t, v, 1)
                if lo != hi:
                    break
                i += 1
            p = keep(rec(i + 1, lo))
            q = keep(rec(i + 1, hi))
            g = keep(bdd.var(v))
            return bdd.ite(g, q, p)
        try:
            r = rec(0, t)
            if self.kind == 'bdd':
                self.raw.incref(r)
        finally:
            if self.kind == 'bdd':
                for h in tmp:
                    self.raw.decref(h)
            del tmp[:]
        if self.kind == 'bdd':
            self.raw.decref(r)  # caller holds right away
        return r

    # ---------------------------------------------------------- steps
    # each step returns a short description; violations are raised
    def s_build(self):
        t = random_table(self.rng, self.sp)
        if self.build_names is not None:
            # functions over some of the declared names only, so that
            # the others are declared but unused
            sub = Space([v for v in self.sp.names if v in self.build_names])
            if sub.names:
                t = sub.lift(random_table(self.rng, sub), self.sp)
        if self.reordering and self.kind == 'autoref' and \
                self.rng.random() < 0.4:
            h = self.build_wrapper(t)
            self.ctx.count('built_through_autoref_find_or_add')
            self.accept('autoref.find_or_add', h, t, strict=True)
        elif self.reordering:
            h = self.build_public(t)
            self.accept('ite', h, t)
        else:
            h = self.build(t)
            self.accept('find_or_add', h, t, strict=True)
        return ('build', self.sp.fmt(t))

    def s_apply(self):
        sym = self.rng.choice(BIN_SYMS)
        a, b = self.pick(), self.pick()
        h = self.bdd.apply(sym, a.h, b.h)
        want = getattr(self.sp, BINOPS[sym])(a.tt, b.tt)
        self.accept('apply', h, want)
        return ('apply', sym)

    def s_apply_quant(self):
        sym = self.rng.choice(QUANT_SYMS)
        a, b = self.pick(), self.pick()
        if self.rng.random() < 0.7:
            # the first operand only supplies its support: usually a
            # function of 1-2 variables, so the result is not constant
            vs = self._subset(1)[:2]
            t = self.sp.cube_table({v: self.rng.random() < 0.5 for v in vs})
            if self.reordering:
                self.accept('ite', self.build_public(t), t, strict=True)
            else:
                self.accept('find_or_add', self.build(t), t, strict=True)
            a = self.pool[-1]
        h = self.bdd.apply(sym, a.h, b.h)
        q = self.sp.support(a.tt)
        want = (self.sp.forall if QUANT_OPS[sym] else self.sp.exists)(b.tt, q)
        self.accept('apply-quantifier', h, want)
        return ('apply', sym)

    def s_not(self):
        a = self.pick()
        sym = self.rng.choice(('not', '~', '!'))
        h = self.bdd.apply(sym, a.h)
        self.accept('apply-not', h, self.sp.NOT(a.tt))
        return ('not', sym)

    def s_ite(self):
        r = self.rng
        g, a, b = self.pick(), self.pick(), self.pick()
        if r.random() < 0.15:
            a = g
        if r.random() < 0.15:
            b = a
        if r.random() < 0.5:
            h = self.bdd.ite(g.h, a.h, b.h)
        else:
            h = self.bdd.apply('ite', g.h, a.h, b.h)
        self.accept('ite', h, self.sp.ITE(g.tt, a.tt, b.tt))
        return ('ite',)

    def _subset(self, lo=0):
        names = list(self.raw.vars)
        k = self.rng.randint(lo, min(len(names), 3))
        return self.rng.sample(names, k)

    def s_quantify(self):
        a = self.pick()
        qv = self._subset()
        fa = self.rng.random() < 0.5
        how = self.rng.randrange(5)
        if how == 0:
            h = self.bdd.quantify(a.h, set(qv), forall=fa)
        elif how == 1:
            h = (self.bdd.forall if fa else self.bdd.exist)(list(qv), a.h)
        elif how == 2:
            # a one-shot iterable (the declared type is `Iterable`)
            h = self.bdd.quantify(a.h, (v for v in qv), forall=fa)
        elif how == 3:
            h = (self.bdd.forall if fa else self.bdd.exist)(iter(qv), a.h)
        else:
            h = self.bdd.quantify(a.h, qv, fa)
        want = (self.sp.forall if fa else self.sp.exists)(a.tt, qv)
        self.accept('quantify', h, want)
        return ('quantify', fa, tuple(qv))

    def s_let_const(self):
        a = self.pick()
        qv = self._subset(1)
        d = {v: self.rng.random() < 0.5 for v in qv}
        h = self.bdd.let(d, a.h)
        self.accept('let-constants', h, self.sp.cofactor(a.tt, d))
        return ('let-const', tuple(sorted(d.items())))

    def s_let_rename(self):
        a = self.pick()
        qv = self._subset(1)
        names = list(self.raw.vars)
        d = {v: self.rng.choice(names) for v in qv}
        h = self.bdd.let(d, a.h)
        self.accept('let-rename', h, self.sp.rename(a.tt, d))
        return ('let-rename', tuple(sorted(d.items())))

    def s_let_compose(self):
        a = self.pick()
        qv = self._subset(1)
        subs = {v: self.pick() for v in qv}
        d = {v: e.h for v, e in subs.items()}
        h = self.bdd.let(d, a.h)
        want = self.sp.substitute(a.tt, {v: e.tt for v, e in subs.items()})
        self.accept('let-compose', h, want)
        return ('let-compose', tuple(sorted(qv)))

    def s_cube(self):
        qv = self._subset()
        d = {v: self.rng.random() < 0.5 for v in qv}
        how = self.rng.randrange(4)
        if how == 0:
            # names only (all true), as a list or a one-shot iterable
            d = {v: True for v in qv}
            h = self.bdd.cube(list(qv))
        elif how == 1:
            d = {v: True for v in qv}
            h = self.bdd.cube(iter(list(qv)))
        else:
            h = self.bdd.cube(d)
        self.accept('cube', h, self.sp.cube_table(d))
        return ('cube', tuple(sorted(d.items())))

    def s_var(self):
        v = self.rng.choice(list(self.raw.vars))
        h = self.bdd.var(v)
        self.accept('var', h, self.sp.var(v))
        return ('var', v)

    def s_add_expr(self):
        names = list(self.raw.vars)
        nodes = [node_of(e.h) for e in
                 self.rng.sample(self.pool, min(3, len(self.pool)))]
        s = formula.gen(self.rng, names, self.rng.randint(1, 4), nodes)
        den = self.den()
        want = formula.meaning(s, self.sp, den)
        h = self.bdd.add_expr(s)
        self.accept('add_expr', h, want)
        return ('add_expr', s)

    def s_to_expr(self):
        a = self.pick()
        s = self.bdd.to_expr(a.h)
        h = self.bdd.add_expr(s)
        if node_of(h) != node_of(a.h):
            raise Violation('to_expr', 'round-trip-differs',
                            (node_of(a.h), s, node_of(h)))
        return ('to_expr',)

    def s_dup(self):
        a = self.pick()
        if self.kind == 'bdd':
            self.hold(a.h, a.tt)
        else:
            self.hold(self._a.Function(a.h.node, self.bdd), a.tt)
        return ('dup',)

    def s_traverse(self):
        """autoref: walk low/high/succ creating child handles."""
        a = self.pick()
        if self.kind != 'autoref' or abs(a.h.node) == 1:
            return ('traverse-skip',)
        v = a.h.var
        lo, hi = a.h.low, a.h.high
        i, lo2, hi2 = self.bdd.succ(a.h)
        if lo2.node != lo.node or hi2.node != hi.node:
            raise Violation('succ', 'succ-differs-from-low-high', None)
        tlo = self.sp.cof(a.tt, v, 0)
        thi = self.sp.cof(a.tt, v, 1)
        if a.h.negated:
            tlo, thi = self.sp.NOT(tlo), self.sp.NOT(thi)
        self.accept('low', lo, tlo, strict=True)
        self.accept('high', hi, thi, strict=True)
        if self.rng.random() < 0.5:
            self.hold(hi2, thi)
        return ('traverse',)

    def s_fop(self):
        """autoref: operators and methods of `Function` objects."""
        if self.kind != 'autoref':
            return ('fop-skip',)
        a, b = self.pick(), self.pick()
        sp = self.sp
        k = self.rng.randrange(9)
        if k == 0:
            h, want, name = ~a.h, sp.NOT(a.tt), '__invert__'
        elif k == 1:
            h, want, name = a.h & b.h, a.tt & b.tt, '__and__'
        elif k == 2:
            h, want, name = a.h | b.h, a.tt | b.tt, '__or__'
        elif k == 3:
            h, want, name = a.h.implies(b.h), sp.IMPLIES(a.tt, b.tt), \
                'implies'
        elif k == 4:
            h, want, name = a.h.equiv(b.h), sp.EQUIV(a.tt, b.tt), 'equiv'
        elif k == 5:
            qv = self._subset()
            h, want, name = a.h.exist(*qv), sp.exists(a.tt, qv), 'exist'
        elif k == 6:
            qv = self._subset()
            h, want, name = a.h.forall(*qv), sp.forall(a.tt, qv), 'forall'
        elif k == 7:
            qv = [v for v in self._subset(1) if v.isidentifier()]
            d = {v: self.rng.random() < 0.5 for v in qv}
            if not d:
                return ('fop-skip',)
            h, want, name = a.h.let(**d), sp.cofactor(a.tt, d), 'let'
        else:
            got = (a.h <= b.h, a.h == b.h, a.h != b.h, a.h < b.h)
            imp = (a.tt & (sp.full ^ b.tt)) == 0
            want = (imp, a.tt == b.tt, a.tt != b.tt, imp and a.tt != b.tt)
            if got != want:
                raise Violation('Function.comparison', 'wrong-result',
                                (got, want))
            return ('fop', 'compare')
        self.accept('Function.' + name, h, want)
        return ('fop', name)

    def s_clone(self):
        """`copy.copy(manager)`: the duplicate and the original must
        be independent. Operations in the duplicate (judged there),
        then the history goes on in the original."""
        if self.kind != 'bdd':
            return ('clone-skip',)
        import copy
        vars_before = dict(self.raw.vars)
        c = copy.copy(self.raw)
        inherited = dict(self.ext)
        sp = self.sp
        den = Denoter(c, sp)
        for e in self.pool:
            if den(e.h) != e.tt:
                raise Violation('__copy__', 'duplicate-denotes-other-function',
                                e.h)
        # the duplicate is a manager in its own right: same order,
        # exact counts (it inherits the external references)
        try:
            monitors.check_structure(c)
            monitors.check_order_maps(c)
            monitors.check_ledger(c, inherited)
        except Violation as v:
            v.site = '__copy__'
            raise
        if dict(c.vars) != dict(self.raw.vars):
            raise Violation('__copy__', 'duplicate-has-another-order',
                            (dict(c.vars), dict(self.raw.vars)))
        # changes of the order in the duplicate stay in the duplicate
        how = self.rng.randrange(4)
        if how == 2 and len(c.vars) < 2:
            how = 3
        if how == 0:
            c.declare('dup_only')
        elif how == 1:
            c.add_var('dup_only')
        elif how == 2:
            c.swap(0, 1)
        if how <= 2:
            monitors.check_order_maps(c)
            monitors.check_order_maps(self.raw)
            if dict(self.raw.vars) != vars_before:
                raise Violation('__copy__', 'original-changed-by-duplicate',
                                (dict(self.raw.vars), vars_before))
            if how <= 1:
                got = c.undeclare_vars('dup_only')
                if got != {'dup_only'}:
                    raise Violation('__copy__', 'undeclare-in-duplicate',
                                    got)
            else:
                c.swap(0, 1)
            monitors.check_order_maps(c)
            monitors.check_order_maps(self.raw)
            self.ctx.count('clone_order_changes')
        base = list(self.pool)   # what both managers hold
        for _ in range(self.rng.randint(1, 4)):
            a, b = self.rng.choice(base), self.rng.choice(base)
            sym = self.rng.choice(BIN_SYMS)
            r = c.apply(sym, a.h, b.h)
            want = getattr(sp, BINOPS[sym])(a.tt, b.tt)
            if Denoter(c, sp)(r) != want:
                raise Violation('__copy__', 'wrong-result-in-duplicate',
                                (sym, a.h, b.h))
            # the same connective in the original, right afterwards
            r0 = self.raw.apply(sym, a.h, b.h)
            self.accept('apply-after-copy', r0, want, strict=True)
        monitors.check_structure(c)
        # release what the duplicate inherited, so that it shuts down
        for u, k in inherited.items():
            for _ in range(k):
                c.decref(u)
        self.ctx.count('clones')
        return ('clone',)

    def s_release_at_zero(self):
        """`decref` of a stored node whose count is zero: documented as
        tolerated ("with 0 as minimum value"; a warning, no effect)."""
        if self.kind != 'bdd' or self.reordering:
            return ('release-at-zero-skip',)
        a, b = self.pick(), self.pick()
        r = self.raw.apply('xor', a.h, b.h)
        u = abs(r)
        if u == 1 or self.raw._ref.get(u) != 0:
            return ('release-at-zero-skip',)
        # the warning of this call is the harness' own doing
        import warnings as _w
        with _w.catch_warnings(record=True) as seen:
            _w.simplefilter('always')
            self.raw.decref(r)
        self.ctx.count('releases_at_count_zero')
        if not any('decref' in str(x.message) for x in seen):
            self.ctx.count('release_at_zero_without_warning_observed')
        if self.raw._ref.get(u) != 0:
            raise Violation('decref', 'count-below-zero-after-release-at-zero',
                            dict(node=u, count=self.raw._ref.get(u)))
        # the node can be taken again, and is then safe from collection
        self.raw.incref(r)
        self.raw.collect_garbage()
        if u not in self.raw._succ:
            raise Violation('decref', 'held-node-freed-after-release-at-zero',
                            u)
        self.raw.decref(r)
        return ('release-at-zero',)

    def s_tight(self):
        """Connectives on a manager whose documented limit `max_nodes`
        leaves room for only a few more nodes. For each connective the
        room grows from 0 upwards until the result fits, so that the
        refusal "full" is met at every node creation of the computation
        in turn: each call either is refused (and everything stays as it
        was, up to unreferenced nodes) or returns the right function."""
        if self.reordering:
            return ('tight-skip',)
        old = self.raw.max_nodes
        log = []
        for _ in range(3):
            sym = self.rng.choice(BIN_SYMS)
            a, b = self.pick(), self.pick()
            want = getattr(self.sp, BINOPS[sym])(a.tt, b.tt)
            above_all = self.rng.random() < 0.5
            for room in range(0, 9):
                base = (max(self.raw._succ) + 1 if above_all
                        else self.raw._min_free)
                self.raw.max_nodes = base + room
                try:
                    h = self.bdd.apply(sym, a.h, b.h)
                except RuntimeError as e:
                    if 'full' not in str(e):
                        raise
                    self.ctx.count('refused_for_lack_of_room')
                    continue
                finally:
                    self.raw.max_nodes = old
                self.ctx.count('computed_with_little_room')
                self.accept('apply', h, want, strict=True)
                log.append((sym, room))
                break
        return ('tight', log)

    def s_rearm(self):
        """Dynamic reordering: release most references, collect, and
        enable reordering again, so that the growth threshold is low
        again (it doubles after every reordering)."""
        if not self.reordering:
            return ('rearm-skip',)
        while len(self.pool) > 3:
            self.drop(self.rng.randrange(len(self.pool)))
        self.bdd.collect_garbage()
        self.bdd.configure(reordering=True)
        self.ctx.count('rearm_calls')
        return ('rearm', len(self.raw))

    def s_drop(self):
        if len(self.pool) > 1:
            self.drop(self.rng.randrange(len(self.pool)))
        return ('drop',)

    def s_drop_many(self):
        k = self.rng.randint(1, max(1, len(self.pool) // 2))
        for _ in range(k):
            if len(self.pool) > 1:
                self.drop(self.rng.randrange(len(self.pool)))
        return ('drop-many', k)

    def s_gc(self):
        before = len(self.raw)
        self.bdd.collect_garbage()
        self.ctx.count('gc_calls')
        self.ctx.count('gc_freed_nodes', before - len(self.raw))
        try:
            monitors.check_exact_collection(self.raw, self.external())
        except Violation as v:
            v.site = 'collect_garbage'
            raise
        return ('gc', before - len(self.raw))

    def s_gc_rooted(self):
        """Compute something, do not hold it, collect rooted at it."""
        a, b = self.pick(), self.pick()
        r = self.raw.apply('xor', node_of(a.h), node_of(b.h))
        r2 = self.raw.apply('and', node_of(a.h), -node_of(b.h))
        # rooted nowhere: nothing may be removed (only `None` means
        # "scan every node")
        nodes = set(self.raw._succ)
        self.raw.collect_garbage(
            self.rng.choice(([], (), set(), frozenset(), iter(()))))
        if set(self.raw._succ) != nodes:
            raise Violation('collect_garbage(roots)',
                            'collection-without-roots-removed-nodes',
                            sorted(nodes - set(self.raw._succ)))
        self.ctx.count('gc_with_empty_roots')
        before = len(self.raw)
        roots = [r, -r2, node_of(a.h)]
        form = self.rng.randrange(5)
        self.raw.collect_garbage(
            roots if form == 0 else tuple(roots) if form == 1
            else set(roots) if form == 2 else iter(roots) if form == 3
            else (x for x in roots))
        self.ctx.count('gc_rooted_calls')
        self.ctx.count('gc_freed_nodes', before - len(self.raw))
        ext = self.external()
        for x in (r, r2):
            if abs(x) in self.raw._succ and not ext.get(abs(x)) \
                    and abs(x) != 1 and \
                    monitors.indegree(self.raw).get(abs(x), 0) == 0:
                raise Violation('collect_garbage(roots)',
                                'unreferenced-root-not-freed', x)
        return ('gc-rooted',)

    def s_swap(self):
        n = len(self.raw.vars)
        if n < 2:
            return ('swap-skip',)
        i = self.rng.randrange(n - 1)
        before = dict(self.raw.vars)
        if self.rng.random() < 0.5:
            x, y = i, i + 1
        else:
            x, y = self.raw.var_at_level(i), self.raw.var_at_level(i + 1)
        if self.rng.random() < 0.5:
            x, y = y, x
        self.raw.swap(x, y)
        self.ctx.count('swap_calls')
        vx, vy = self.raw._level_to_var[i], self.raw._level_to_var[i + 1]
        inv = {l: v for v, l in before.items()}
        if (vx, vy) != (inv[i + 1], inv[i]):
            raise Violation('swap', 'levels-not-exchanged',
                            (before, dict(self.raw.vars), i))
        return ('swap', i)

    def s_sift(self):
        if len(self.raw.vars) < 2:
            # sifting a manager with < 2 variables is judged in C07
            return ('sift-skip',)
        before = len(self.raw)
        # sifting collects garbage first; compare with collected size
        if self.kind == 'bdd':
            self._b.reorder(self.raw)
        else:
            self.bdd.reorder()
        self.ctx.count('sift_calls')
        return ('sift', before, len(self.raw))

    def s_reorder_to(self):
        names = list(self.raw.vars)
        self.rng.shuffle(names)
        order = {v: i for i, v in enumerate(names)}
        if self.kind == 'bdd':
            self._b.reorder(self.raw, order)
        else:
            self.bdd.reorder(order)
        self.ctx.count('reorder_to_calls')
        if dict(self.raw.vars) != order:
            raise Violation('reorder(order)', 'requested-order-not-reached',
                            (order, dict(self.raw.vars)))
        return ('reorder-to', tuple(names))

    def s_pairs(self):
        names = list(self.raw.vars)
        self.rng.shuffle(names)
        k = self.rng.randint(1, len(names) // 2) if len(names) >= 2 else 0
        pairs = {names[2 * i]: names[2 * i + 1] for i in range(k)}
        self._b.reorder_to_pairs(self.raw, pairs)
        self.ctx.count('pairs_calls')
        return ('pairs', tuple(sorted(pairs.items())))

    def s_declare(self):
        if len(self.sp.names) >= 7:
            return ('declare-skip',)
        v = next(self.fresh_names)
        n = len(self.raw.vars)
        how = self.rng.randrange(3)
        if how == 0:
            self.bdd.declare(v)
        elif how == 1:
            lvl = self.bdd.add_var(v)
            if lvl != n:
                raise Violation('add_var', 'new-variable-not-at-bottom',
                                (v, lvl, n))
        else:
            lvl = self.bdd.add_var(v, n)
            if lvl != n:
                raise Violation('add_var', 'new-variable-not-at-bottom',
                                (v, lvl, n))
        if self.raw.vars.get(v) != n:
            raise Violation('declare', 'new-variable-not-at-bottom',
                            (v, dict(self.raw.vars)))
        self._respace(list(self.sp.names) + [v])
        return ('declare', v)

    def _respace(self, names):
        new = Space(names)
        old = self.sp
        for e in self.pool:
            if set(old.names) <= set(new.names):
                e.tt = old.lift(e.tt, new)
            else:
                e.tt = old.project(e.tt, new)
        self.sp = new
        if self.watch is not None:
            self.watch.first = dict()

    def s_undeclare(self):
        """Remove unused variables (all, or a subset), half of the time
        after a collection (without one, a level that holds only
        unreferenced nodes counts as used and is left alone)."""
        if self.rng.random() < 0.5:
            self.bdd.collect_garbage()
        used = {i for i, _, _ in self.raw._succ.values()}
        unused = [v for v, i in self.raw.vars.items() if i not in used]
        if not unused:
            return ('undeclare-skip',)
        before = sorted(self.raw.vars, key=self.raw.vars.get)
        if self.rng.random() < 0.4:
            chosen = set(unused)
            got = self.raw.undeclare_vars()
        else:
            k = self.rng.randint(1, len(unused))
            chosen = set(self.rng.sample(unused, k))
            got = self.raw.undeclare_vars(*chosen)
        self.ctx.count('undeclare_calls')
        if set(got) != chosen:
            raise Violation('undeclare_vars', 'removed-set-differs',
                            (sorted(got), sorted(chosen)))
        after = sorted(self.raw.vars, key=self.raw.vars.get)
        if after != [v for v in before if v not in chosen]:
            raise Violation('undeclare_vars', 'relative-order-changed',
                            (before, after, sorted(chosen)))
        self._respace([v for v in self.sp.names if v not in chosen])
        return ('undeclare', tuple(sorted(chosen)))

    def s_copy_roundtrip(self):
        """Copy into a manager with another order and back: the same
        reference must come back (canonicity + copy)."""
        a = self.pick()
        names = list(self.raw.vars)
        self.rng.shuffle(names)
        other_levels = {v: i for i, v in enumerate(names)}
        if self.kind == 'bdd':
            other = self._b.BDD(other_levels)
            if self.rng.random() < 0.5:
                v = self.raw.copy(a.h, other)
            else:
                v = self._b.copy_bdd(a.h, self.raw, other)
            other.incref(v)
            got = Denoter(other, self.sp)(v)
            if self.rng.random() < 0.5:
                back = other.copy(v, self.raw)
            else:
                back = self._b.copy_bdd(v, other, self.raw)
            other.decref(v)
        else:
            import dd._copy as _c
            other = self._a.BDD(other_levels)

            def cp(u, target):
                # every public route between two dd.autoref managers
                route = self.rng.randrange(4)
                self.ctx.count(f'copy_route_{route}')
                if route == 0:
                    return u.bdd.copy(u, target)
                if route == 1:
                    return self._a.copy_bdd(u, target)
                if route == 2:
                    return _c.copy_bdd(u, target)
                return _c.copy_bdds_from([u], target)[0]
            v = cp(a.h, other)
            got = Denoter(other._bdd, self.sp)(v.node)
            back = cp(v, self.bdd)
            del v
        if got != a.tt:
            raise Violation('copy', 'copy-denotes-other-function',
                            (self.sp.fmt(got), self.sp.fmt(a.tt)))
        if node_of(back) != node_of(a.h):
            raise Violation('copy', 'copy-back-not-same-reference',
                            (node_of(back), node_of(a.h)))
        return ('copy-roundtrip',)

    def s_dump_load(self):
        """Pickle some roots and load them back into the same manager."""
        cands = [e for e in self.pool if abs(node_of(e.h)) != 1]
        if not cands:
            return ('dump-load-skip',)
        k = self.rng.randint(1, min(3, len(cands)))
        es = self.rng.sample(cands, k)
        as_dict = self.rng.random() < 0.5
        roots = ({f'r{i}': e.h for i, e in enumerate(es)} if as_dict
                 else [e.h for e in es])
        fn = f'w{os.getpid()}.p'
        try:
            self.bdd.dump(fn, roots)
            back = self.bdd.load(fn)
            # and into a fresh manager, which declares the variables as
            # the loader meets them (`levels` false or true): canonical
            # there as well - the loaded root is the reference that a
            # node-by-node construction of the same function gives
            lv = self.rng.random() < 0.5
            fresh = self._b.BDD() if self.kind == 'bdd' else self._a.BDD()
            try:
                fback = fresh.load(fn, levels=lv)
            except ValueError:
                fback = None   # (a refusal is C12's and C17's business)
            if fback is not None:
                fraw = raw(fresh)
                try:
                    monitors.check_structure(fraw)
                    monitors.check_order_maps(fresh)
                except Violation as v:
                    v.site = 'load-into-fresh-manager'
                    raise
                fvals = list(fback.values()) if as_dict else list(fback)
                if set(fraw.vars) == set(self.sp.names):
                    for e, h in zip(es, fvals):
                        want = build(fraw, e.tt, self.sp)
                        if node_of(h) != want:
                            raise Violation(
                                'load-into-fresh-manager',
                                'same-function-different-reference',
                                dict(loaded=node_of(h), built=want,
                                     levels=lv))
                self.ctx.count('loads_into_fresh_manager')
                del fvals
            del fback, fresh
        finally:
            if os.path.exists(fn):
                os.remove(fn)
        vals = list(back.values()) if as_dict else list(back)
        keys = list(back) if as_dict else None
        if as_dict and keys != list(roots):
            raise Violation('load', 'root-names-differ', (keys, list(roots)))
        for e, h in zip(es, vals):
            if node_of(h) != node_of(e.h):
                raise Violation('load', 'round-trip-not-same-reference',
                                (node_of(h), node_of(e.h)))
        return ('dump-load', k, as_dict)

    # ---------------------------------------------------------- routes
    def dnf_by_connectives(self, t):
        """Disjunction of minterms built with `apply` (terminal-heavy)."""
        bdd, sp = self.bdd, self.sp
        sup = sorted(sp.support(t))
        r = bdd.false
        seen = set()
        for k in range(sp.size):
            if not (t >> k) & 1:
                continue
            key = tuple((k >> sp.index[v]) & 1 for v in sup)
            if key in seen:
                continue
            seen.add(key)
            c = bdd.true
            for v, b in zip(sup, key):
                x = bdd.var(v)
                if not b:
                    x = bdd.apply('not', x)
                c = bdd.apply('and', c, x)
            r = bdd.apply('or', r, c)
        return r

    def dnf_text(self, t):
        sp = self.sp
        sup = sorted(sp.support(t))
        if t == 0:
            return 'FALSE'
        if t == sp.full:
            return 'TRUE'
        terms = []
        seen = set()
        for k in range(sp.size):
            if not (t >> k) & 1:
                continue
            key = tuple((k >> sp.index[v]) & 1 for v in sup)
            if key in seen:
                continue
            seen.add(key)
            terms.append('(' + ' /\\ '.join(
                v if b else '~ ' + v for v, b in zip(sup, key)) + ')')
        return ' \\/ '.join(terms)

    def route(self, name, t):
        """Construct the function with table `t` by the named route."""
        bdd, sp, rng = self.bdd, self.sp, self.rng
        if name == 'nodes':
            return self.build(t)
        if name == 'ite':
            return self.build_public(t)
        if name == 'dnf':
            return self.dnf_by_connectives(t)
        if name == 'expr':
            return bdd.add_expr(self.dnf_text(t))
        if name == 'to_expr':
            u = self.build(t)
            return bdd.add_expr(bdd.to_expr(u))
        if name == 'rename':
            names = list(sp.names)
            perm = names[:]
            rng.shuffle(perm)
            pi = dict(zip(names, perm))
            inv = {b: a for a, b in pi.items()}
            u = self.build(sp.rename(t, pi))
            return bdd.let(inv, u)
        if name == 'compose':
            names = list(sp.names)
            perm = names[:]
            rng.shuffle(perm)
            pi = dict(zip(names, perm))
            inv = {b: a for a, b in pi.items()}
            u = self.build(sp.rename(t, pi))
            keep = [bdd.var(a) for a in names]   # keep handles alive
            d = {b: bdd.var(a) for b, a in inv.items()}
            r = bdd.let(d, u)
            del keep
            return r
        if name == 'cofactor-expand':
            if not sp.names:
                return self.build(t)
            v = rng.choice(sp.names)
            u = self.build(t)
            lo = bdd.let({v: False}, u)
            hi = bdd.let({v: True}, u)
            return bdd.ite(bdd.var(v), hi, lo)
        if name == 'pickle':
            u = self.build(t)
            if abs(node_of(u)) == 1:
                return u    # constant roots are C12's business
            fn = f'c{os.getpid()}.p'
            try:
                bdd.dump(fn, [u])
                r, = bdd.load(fn)
            finally:
                if os.path.exists(fn):
                    os.remove(fn)
            return r
        if name == 'copy':
            names = list(self.raw.vars)
            rng.shuffle(names)
            lv = {v: i for i, v in enumerate(names)}
            if self.kind == 'bdd':
                other = self._b.BDD(lv)
                v = build(other, t, sp)
                other.incref(v)
                r = other.copy(v, self.raw)
                other.decref(v)
                return r
            other = self._a.BDD(lv)
            v = self._a.Function(build(other._bdd, t, sp), other)
            return other.copy(v, bdd)
        raise ValueError(name)

    ROUTES = ('nodes', 'ite', 'dnf', 'expr', 'to_expr', 'rename',
              'compose', 'cofactor-expand', 'pickle', 'copy')

    def s_canon(self):
        """Re-derive a held function by a random route: the same
        reference must come back."""
        e = self.pick()
        name = self.rng.choice(self.ROUTES)
        if self.reordering:
            ok = ('ite', 'expr') if self.kind == 'bdd' else (
                'ite', 'expr', 'dnf')
            if name not in ok:
                name = 'ite'
        h = self.route(name, e.tt)
        if node_of(h) != node_of(e.h):
            raise Violation(name, 'same-function-different-reference',
                            dict(route=name, got=node_of(h),
                                 held=node_of(e.h), table=self.sp.fmt(e.tt)))
        self.ctx.count('route_' + name)
        return ('canon', name)

    # ---------------------------------------------------------- driving
    MENU = dict(
        build=6, apply=10, apply_quant=2, ite=6, quantify=4,
        **{'not': 2}, let_const=3, let_rename=3, let_compose=3, cube=1, var=1,
        add_expr=3, to_expr=1, dup=2, drop=6, drop_many=1, gc=4,
        gc_rooted=1, swap=3, sift=1, reorder_to=1, pairs=1, declare=0,
        undeclare=0, copy_roundtrip=1, dump_load=0, traverse=0, canon=0, fop=0, rearm=0, clone=0)

    def step(self, menu):
        """Execute one random step from `menu` (name -> weight) and run
        the quiescent-point monitors."""
        names = [k for k, w in menu.items() if w > 0]
        weights = [menu[k] for k in names]
        if not self.raw.vars:
            name = 'declare'
        elif not self.pool:
            name = 'build'
        else:
            name = self.rng.choices(names, weights)[0]
        fn = getattr(self, 's_' + name)
        self.site = name
        desc = fn()
        self.log.append(desc)
        self.ctx.count('steps')
        self.ctx.count('step_' + name)
        den = self.check(name)
        return desc, den

    def state_hash(self):
        from vf.common import h64
        return h64(sorted(self.raw._succ.items()),
                   sorted(self.raw.vars.items()))

    def finish(self, site='shutdown'):
        """Release everything; only the terminal may remain and the
        manager's own shutdown check must pass."""
        self.drop_all()
        gc.collect()
        if self.kind == 'autoref':
            ext = self.registry.external(self.raw)
            if ext:
                raise Violation(site, 'handles-still-alive-after-drop',
                                dict(ext))
        self.bdd.collect_garbage()
        left = set(self.raw._succ) - {1}
        if left:
            raise Violation(site, 'nodes-left-after-releasing-everything',
                            dict(nodes=sorted(left)[:10],
                                 refs={u: self.raw._ref[u]
                                       for u in sorted(left)[:10]}))
        # the manager's own shutdown check (its __del__), called
        # explicitly so that a failure is not swallowed
        self.raw.__del__()
        self.raw._ref[1] = 1   # restore what __del__ released
