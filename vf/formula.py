r"""Independent reader of the documented formula grammar (doc.md,
"Syntax for quantified Boolean formulas"). Own tokenizer + precedence
climbing; evaluates straight to truth tables. Imports nothing from `dd`,
`astutils` or `ply`.

Precedence, lowest to highest (doc.md): `:`; `<=> <->`; `=> ->`; `-`;
`# ^`; `\/ | ||`; `/\ & &&`; (`=`, not given a meaning, excluded);
`~ !`; unary minus in `@-n`. Binary operators associate to the left.
A binder (`\A`, `\E`, `\S`) extends as far to the right as possible.
"""
import re

# canonical operator -> (precedence, spellings)
BIN = {
    'equiv': (1, ('<=>', '<->')),
    'implies': (2, ('=>', '->')),
    'diff': (3, ('-',)),
    'xor': (4, ('#', '^')),
    'or': (5, ('\\/', '|', '||')),
    'and': (6, ('/\\', '&', '&&')),
}
SPELL = {s: (op, p) for op, (p, ss) in BIN.items() for s in ss}
NOTS = ('~', '!')
TRUE_WORDS = ('TRUE', 'True', 'true')
FALSE_WORDS = ('FALSE', 'False', 'false')
RESERVED = set(TRUE_WORDS) | set(FALSE_WORDS) | {'ite'}

_TOKEN = re.compile(r'''
    (?P<ws>[ \t\n]+)
  | (?P<c1>\\\*[^\n]*)
  | (?P<c2>\(\*[\s\S]*?\*\))
  | (?P<name>[A-Za-z_][A-Za-z0-9_']*)
  | (?P<num>\d+)
  | (?P<op><=>|<->|=>|->|/\\|\\/|&&|\|\||\\A|\\E|\\S|[~!&|\#^\-:,()/@])
''', re.X)


class FormulaError(Exception):
    pass


def tokenize(s):
    out = []
    i = 0
    while i < len(s):
        m = _TOKEN.match(s, i)
        if not m:
            raise FormulaError(('bad character', i, s[i]))
        i = m.end()
        k = m.lastgroup
        if k in ('ws', 'c1', 'c2'):
            continue
        out.append((k, m.group(k)))
    return out


class _P:
    def __init__(self, toks):
        self.t = toks
        self.i = 0

    def peek(self):
        return self.t[self.i] if self.i < len(self.t) else ('eof', None)

    def next(self):
        tok = self.peek()
        self.i += 1
        return tok

    def expect(self, val):
        k, v = self.next()
        if v != val:
            raise FormulaError(('expected', val, 'got', v))

    def expr(self, minp):
        lhs = self.unary()
        while True:
            k, v = self.peek()
            if k == 'op' and v in SPELL:
                op, p = SPELL[v]
                if p < minp:
                    break
                self.next()
                rhs = self.expr(p + 1)
                lhs = (op, lhs, rhs)
            else:
                break
        return lhs

    def name(self):
        k, v = self.next()
        if k != 'name' or v in RESERVED:
            raise FormulaError(('expected name', v))
        return v

    def unary(self):
        k, v = self.next()
        if k == 'op' and v in NOTS:
            return ('not', self.unary_operand())
        if k == 'op' and v in ('\\A', '\\E'):
            names = [self.name()]
            while self.peek()[1] == ',':
                self.next()
                names.append(self.name())
            self.expect(':')
            body = self.expr(0)
            return ('forall' if v == '\\A' else 'exists', names, body)
        if k == 'op' and v == '\\S':
            subs = []
            while True:
                new = self.name()
                self.expect('/')
                old = self.name()
                subs.append((old, new))
                if self.peek()[1] == ',':
                    self.next()
                    continue
                break
            self.expect(':')
            body = self.expr(0)
            return ('rename', subs, body)
        if k == 'op' and v == '(':
            e = self.expr(0)
            self.expect(')')
            return e
        if k == 'op' and v == '@':
            k2, v2 = self.next()
            neg = False
            if v2 == '-':
                neg = True
                k2, v2 = self.next()
            if k2 != 'num':
                raise FormulaError(('expected number', v2))
            n = int(v2)
            return ('node', -n if neg else n)
        if k == 'name':
            if v == 'ite':
                self.expect('(')
                a = self.expr(0)
                self.expect(',')
                b = self.expr(0)
                self.expect(',')
                c = self.expr(0)
                self.expect(')')
                return ('ite', a, b, c)
            if v in TRUE_WORDS:
                return ('const', True)
            if v in FALSE_WORDS:
                return ('const', False)
            return ('var', v)
        raise FormulaError(('unexpected token', k, v))

    def unary_operand(self):
        # operand of `~`: binds tighter than every binary operator;
        # a binder as operand still extends to the right
        return self.unary()


def parse(s):
    p = _P(tokenize(s))
    e = p.expr(0)
    if p.peek()[0] != 'eof':
        raise FormulaError(('trailing input', p.peek()))
    return e


def evaluate(ast, sp, node_table=None):
    """Truth table of `ast` in Space `sp`. `node_table(int)` gives the
    table of `@n`."""
    k = ast[0]
    if k == 'var':
        return sp.var(ast[1])
    if k == 'const':
        return sp.const(ast[1])
    if k == 'node':
        return node_table(ast[1])
    if k == 'not':
        return sp.NOT(evaluate(ast[1], sp, node_table))
    if k == 'ite':
        return sp.ITE(*(evaluate(x, sp, node_table) for x in ast[1:]))
    if k in ('forall', 'exists'):
        body = evaluate(ast[2], sp, node_table)
        return (sp.forall if k == 'forall' else sp.exists)(body, ast[1])
    if k == 'rename':
        body = evaluate(ast[2], sp, node_table)
        ren = dict()
        for old, new in ast[1]:
            ren[old] = new   # a repeated `old` keeps the last pair, as a
            # dict built from the pairs does; generated formulas never
            # repeat it
        return sp.rename(body, ren)
    a = evaluate(ast[1], sp, node_table)
    b = evaluate(ast[2], sp, node_table)
    if k == 'and':
        return a & b
    if k == 'or':
        return a | b
    if k == 'xor':
        return a ^ b
    if k == 'implies':
        return sp.IMPLIES(a, b)
    if k == 'equiv':
        return sp.EQUIV(a, b)
    if k == 'diff':
        return sp.DIFF(a, b)
    raise FormulaError(('unknown ast', k))


def meaning(s, sp, node_table=None):
    return evaluate(parse(s), sp, node_table)


def paren(ast, rng=None, spell=None):
    """Fully parenthesised text of `ast` (every compound operand in
    parentheses), with canonical or random spellings."""
    def sp_(op):
        ss = BIN[op][1]
        return rng.choice(ss) if rng else ss[0]
    k = ast[0]
    if k == 'var':
        return ast[1]
    if k == 'const':
        return 'TRUE' if ast[1] else 'FALSE'
    if k == 'node':
        return f'@{ast[1]}'
    if k == 'not':
        return f'(~ {paren(ast[1], rng)})'
    if k == 'ite':
        return 'ite({}, {}, {})'.format(*(paren(x, rng) for x in ast[1:]))
    if k in ('forall', 'exists'):
        q = '\\A' if k == 'forall' else '\\E'
        return f'({q} {", ".join(ast[1])}: {paren(ast[2], rng)})'
    if k == 'rename':
        subs = ', '.join(f'{new} / {old}' for old, new in ast[1])
        return f'(\\S {subs}: {paren(ast[2], rng)})'
    return f'({paren(ast[1], rng)} {sp_(k)} {paren(ast[2], rng)})'


# ----------------------------------------------------------- generator

def gen(rng, names, depth, nodes=(), binders=True, renames=True):
    """Random formula text over `names`; `nodes` are integers usable as
    `@n`. Parentheses, spellings, whitespace and comments are random."""
    def ws():
        r = rng.random()
        if r < 0.8:
            return ' '
        if r < 0.86:
            return '  '
        if r < 0.9:
            return '\t'
        if r < 0.94:
            return ' \n '
        if r < 0.955:
            return ' (* c /\\ ~ *) '
        if r < 0.97:
            return rng.choice((' (** banner **) ', ' (**** h ****) ',
                               ' (* see above **) ', ' (***) ', ' (**) ',
                               ' (* a * b ) *) ', ' (*** odd ***) '))
        return ' (* two\nlines *) '

    def atom():
        r = rng.random()
        if r < 0.08:
            return rng.choice(('TRUE', 'True', 'FALSE', 'False'))
        if r < 0.16 and nodes:
            n = rng.choice(nodes)
            return f'@{n}'
        return rng.choice(names)

    def rec(d):
        if d <= 0 or rng.random() < 0.12:
            return atom()
        r = rng.random()
        if r < 0.55:
            op = rng.choice(list(BIN))
            s = rng.choice(BIN[op][1])
            a, b = rec(d - 1), rec(d - 1)
            if rng.random() < 0.25:
                a = f'({a})'
            if rng.random() < 0.25:
                b = f'({b})'
            return f'{a}{ws()}{s}{ws()}{b}'
        if r < 0.70:
            a = rec(d - 1)
            if rng.random() < 0.4:
                a = f'({a})'
            return f'{rng.choice(NOTS)}{ws()}{a}'
        if r < 0.78:
            return (f'ite({rec(d - 1)},{ws()}{rec(d - 1)},{ws()}'
                    f'{rec(d - 1)})')
        if r < 0.86:
            return f'({rec(d - 1)})'
        if not binders:
            return atom()
        if r < 0.95:
            q = rng.choice(('\\A', '\\E'))
            k = rng.randint(1, min(2, len(names)))
            vs = rng.sample(list(names), k)
            body = rec(d - 1)
            s = f'{q}{ws()}{(", " if rng.random() < .7 else ",").join(vs)}:{ws()}{body}'
            return s if rng.random() < 0.5 else f'({s})'
        if not renames:
            return atom()
        # renaming: distinct old names, arbitrary new names
        k = rng.randint(1, min(2, len(names)))
        olds = rng.sample(list(names), k)
        pairs = ', '.join(
            f'{rng.choice(names)}{rng.choice(("/", " / "))}{o}' for o in olds)
        s = f'\\S {pairs}:{ws()}{rec(d - 1)}'
        return s if rng.random() < 0.5 else f'({s})'
    s = rec(depth)
    if rng.random() < 0.05:
        s += ' \\* trailing comment ~ /\\'
    return s
