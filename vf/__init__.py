"""Runtime-monitoring framework for tulip-control/dd (see /verif/DESIGN.md)."""
