"""A manager holding every function (or a sample) over a few names, with
the map reference -> table for judging results in O(1)."""
import itertools

from vf.common import Violation
from vf.oracle import Space, Denoter, build


class AllFunctions:
    def __init__(self, names, order, tables=None, kind='bdd'):
        import dd.bdd as _b
        self.names = tuple(names)
        self.sp = sp = Space(names)
        self.order = tuple(order)
        lv = {v: i for i, v in enumerate(order)}
        # insertion order of `vars` != level order (hostile default)
        keys = sorted(lv, key=lambda v: (hash_str(v, order) % 7, v))
        self.bdd = bdd = _b.BDD({v: lv[v] for v in keys})
        if tables is None:
            tables = range(sp.full + 1)
        self.tables = list(tables)
        self.R = dict()
        for t in self.tables:
            r = build(bdd, t, sp)
            bdd.incref(r)
            self.R[t] = r
        self.remap()
        den = Denoter(bdd, sp)
        for t, r in self.R.items():
            if den(r) != t:
                raise Violation('find_or_add', 'wrong-result', (sp.fmt(t), r))

    def remap(self):
        full = self.sp.full
        self.tt_of = tt = dict()
        for t, r in self.R.items():
            tt[r] = t
            tt[-r] = full ^ t

    def table(self, r):
        """Table of reference `r` (any stored node)."""
        t = self.tt_of.get(r)
        if t is None:
            t = Denoter(self.bdd, self.sp)(r)
        return t

    def release(self):
        for r in self.R.values():
            self.bdd.decref(r)
        self.R = dict()


def hash_str(v, order):
    from vf.common import h64
    return h64(v, tuple(order))


def subsets(names):
    names = list(names)
    for k in range(len(names) + 1):
        for c in itertools.combinations(names, k):
            yield c


def orders(names, tier, seed, quick_n):
    perms = list(itertools.permutations(names))
    if tier == 'thorough' or quick_n >= len(perms):
        return perms
    step = max(1, len(perms) // quick_n)
    return [perms[(seed * 5 + k * step) % len(perms)]
            for k in range(quick_n)]
