"""Runner infrastructure: contexts, verdicts, shards, evidence, findings."""
import collections
import contextlib
import hashlib
import json
import os
import random
import shutil
import subprocess
import sys
import tempfile
import time
import traceback
import warnings
import concurrent.futures as _cf

VERIF = os.path.dirname(os.path.dirname(os.path.abspath(__file__)))
REPO = os.environ.get('VERIF_REPO', '/repo')
PY = os.environ.get('VERIF_PYTHON', '/venv/bin/python')
NCPU = int(os.environ.get('VERIF_JOBS', '16'))

LEVELS = {
    'C09': 'fault_enumeration',
    'C17': 'fault_enumeration',
}


def setup_repo_path():
    """Make `import dd` pick up the working tree under test."""
    if sys.path[0] != REPO:
        sys.path.insert(0, REPO)
    sys.dont_write_bytecode = True
    import dd
    path = os.path.dirname(os.path.abspath(dd.__file__))
    want = os.path.join(os.path.abspath(REPO), 'dd')
    if path != want:
        raise RuntimeError(
            f'dd imported from {path}, expected {want}')
    return path


def h64(*parts):
    """Stable 64-bit hash of a case description (independent of
    PYTHONHASHSEED)."""
    s = repr(parts).encode()
    return int.from_bytes(hashlib.blake2b(s, digest_size=8).digest(), 'big')


class Violation(Exception):
    """Raised by monitors; carries the mechanism key and details."""

    def __init__(self, site, symptom, detail=None):
        super().__init__(f'{site}|{symptom}: {detail}')
        self.site = site
        self.symptom = symptom
        self.detail = detail


class Inconclusive(Exception):
    pass


class Ctx:
    """Per-shard context: counters, distinct cases, samples, violations."""

    def __init__(self, prop, tier, seed, shard=None):
        self.prop = prop
        self.tier = tier
        self.seed = seed
        self.shard = shard or dict()
        self.counters = collections.Counter()
        self.distinct = set()
        self.distinct_enum = 0  # distinct by construction (enumeration)
        self.samples = []
        self.violations = []
        self.notes = collections.defaultdict(set)
        self.exhaustive = None
        self.t0 = time.time()
        self.max_samples = 6
        self.max_violations = 25

    # -- accounting
    def count(self, name, k=1):
        self.counters[name] += k

    def case(self, nontrivial, *key, enum=False):
        """Register one evaluated case. `key` identifies it."""
        self.counters['evaluations'] += 1
        if nontrivial:
            if enum:
                self.distinct_enum += 1
            else:
                self.distinct.add(h64(*key))

    def sample(self, obj):
        if len(self.samples) < self.max_samples:
            self.samples.append(obj)

    def note(self, name, value):
        s = self.notes[name]
        if len(s) < 64:
            s.add(value)

    def rng(self, *salt):
        return random.Random(h64(self.prop, self.seed, self.shard.get('i', 0),
                                 *salt))

    # -- verdicts
    def violation(self, site, symptom, detail, case=None):
        """Record a violation, keyed by mechanism (call site, symptom)."""
        self.counters['violations_raw'] += 1
        if len(self.violations) >= self.max_violations:
            return
        self.violations.append(dict(
            key=f'{self.prop}|{site}|{symptom}',
            site=site, symptom=symptom,
            detail=_short(detail), case=_jsonable(case)))

    def guard(self, site, fn, *a, case=None, symptom='unexpected-exception',
              **kw):
        """Run `fn`; a `Violation` or any unexpected exception becomes a
        recorded violation. Returns (ok, result)."""
        try:
            return True, fn(*a, **kw)
        except Violation as v:
            self.violation(v.site or site, v.symptom, v.detail, case)
        except Inconclusive:
            raise
        except RecursionError as e:
            self.violation(site, 'recursion-error', repr(e), case)
        except Exception as e:
            tb = traceback.format_exc(limit=8)
            self.violation(site, symptom + ':' + type(e).__name__,
                           f'{e!r}\n{tb}', case)
        return False, None

    def result(self):
        return dict(
            prop=self.prop, tier=self.tier, seed=self.seed,
            shard=self.shard,
            counters=dict(self.counters),
            distinct=sorted(self.distinct),
            distinct_enum=self.distinct_enum,
            samples=self.samples,
            violations=self.violations,
            notes={k: sorted(v, key=repr) for k, v in self.notes.items()},
            exhaustive=self.exhaustive,
            wall_s=time.time() - self.t0,
            hashseed=os.environ.get('PYTHONHASHSEED'))


def _short(x, n=1500):
    s = x if isinstance(x, str) else repr(x)
    return s if len(s) <= n else s[:n] + '...'


def _jsonable(x):
    try:
        json.dumps(x)
        return x
    except (TypeError, ValueError):
        return _short(x)


@contextlib.contextmanager
def scratch_dir():
    """Private temporary cwd for file-touching cases (removed after)."""
    old = os.getcwd()
    d = tempfile.mkdtemp(prefix='vf_')
    os.chdir(d)
    try:
        yield d
    finally:
        os.chdir(old)
        shutil.rmtree(d, ignore_errors=True)


# ---------------------------------------------------------------- findings

def load_findings():
    path = os.path.join(VERIF, 'known_findings.json')
    if not os.path.exists(path):
        return dict(findings=[], fixed=[])
    with open(path) as f:
        return json.load(f)


# ---------------------------------------------------------------- parent

def run_shards(prop, tier, seed, specs, timeout):
    """Run every shard spec in its own subprocess; return list of results.

    A shard that times out or dies yields a dict with key `failed`.
    """
    tmp = tempfile.mkdtemp(prefix=f'vf_{prop}_')
    results = []

    def one(i, spec):
        out = os.path.join(tmp, f'shard{i}.json')
        env = dict(os.environ)
        env['PYTHONHASHSEED'] = str(spec.get('hashseed', 0))
        env['PYTHONDONTWRITEBYTECODE'] = '1'
        env['VERIF_REPO'] = REPO
        env.pop('PYTHONPATH', None)
        cmd = [PY, '-X', 'faulthandler', '-m', 'vf.run', '--shard',
               json.dumps(dict(spec, i=spec.get('i', i))), '--out', out,
               prop, tier, '--seed', str(seed)]
        t0 = time.time()
        try:
            p = subprocess.run(
                cmd, cwd=VERIF, env=env, timeout=timeout,
                stdout=subprocess.PIPE, stderr=subprocess.STDOUT, text=True)
        except subprocess.TimeoutExpired as e:
            return dict(failed='timeout', spec=spec, i=i,
                        output=_short((e.stdout or b'')[-3000:]))
        if os.path.exists(out):
            with open(out) as f:
                r = json.load(f)
            r['returncode'] = p.returncode
            r['output'] = p.stdout[-3000:]
            r['elapsed'] = time.time() - t0
            if p.returncode != 0:
                r['failed'] = f'exit {p.returncode}'
            return r
        return dict(failed=f'no result (exit {p.returncode})', spec=spec,
                    i=i, output=p.stdout[-6000:])

    try:
        with _cf.ThreadPoolExecutor(max_workers=NCPU) as ex:
            futs = [ex.submit(one, i, s) for i, s in enumerate(specs)]
            for f in futs:
                results.append(f.result())
    finally:
        shutil.rmtree(tmp, ignore_errors=True)
    return results


def merge_and_report(prop, tier, seed, results, meta, t0):
    """Merge shard results, write evidence, print verdict lines.

    Returns the process exit code.
    """
    counters = collections.Counter()
    distinct = set()
    distinct_enum = 0
    samples = []
    violations = []
    notes = collections.defaultdict(set)
    failed = []
    hashseeds = set()
    exhaustive = None
    for r in results:
        if 'failed' in r and 'counters' not in r:
            failed.append(r)
            continue
        if 'failed' in r:
            failed.append(r)
        counters.update(r['counters'])
        distinct.update(r['distinct'])
        distinct_enum += r['distinct_enum']
        for s in r['samples']:
            if len(samples) < 8:
                samples.append(s)
        for v in r['violations']:
            v = dict(v, shard=r['shard'])
            violations.append(v)
        for k, vs in r['notes'].items():
            for v in vs:
                if len(notes[k]) < 64:
                    notes[k].add(json.dumps(v) if not isinstance(v, str) else v)
        if r.get('hashseed') is not None:
            hashseeds.add(r['hashseed'])
        if r.get('exhaustive') is not None:
            exhaustive = (r['exhaustive'] if exhaustive is None
                          else (exhaustive and r['exhaustive']))
    known = load_findings()
    known_keys = {
        f"{f['property']}|{f['site']}|{f['symptom']}": f
        for f in known.get('findings', [])}
    new = []
    seen_known = dict()
    for v in violations:
        k = v['key']
        if k in known_keys:
            seen_known.setdefault(k, v)
        else:
            new.append(v)
    # replay files for new violations (one per key, up to 5 keys)
    lines = []
    by_key = dict()
    for v in new:
        by_key.setdefault(v['key'], v)
    os.makedirs(os.path.join(VERIF, 'replays'), exist_ok=True)
    for n, (k, v) in enumerate(by_key.items()):
        if n >= 5:
            break
        path = os.path.join(VERIF, 'replays', f'{prop}-{seed}-{n}.json')
        with open(path, 'w') as f:
            json.dump(dict(property=prop, tier=tier, seed=seed,
                           shard=v['shard'], violation=v), f, indent=1)
        lines.append(f'VIOLATION property={prop} replay={path}')
        print(f'  key={k}\n  detail={v["detail"][:600]}\n  case={_short(v["case"], 600)}')
    for k, v in seen_known.items():
        print(f'KNOWN-FINDING: property={prop} {known_keys[k]["what"]} '
              f'[{k}]')
    # required reach counters
    missing = [c for c in meta.get('require', ())
               if counters.get(c, 0) <= 0]
    inconclusive = []
    if failed:
        for r in failed:
            inconclusive.append(
                f"shard {r.get('i', r.get('shard'))} {r['failed']}: "
                f"{_short(r.get('output', ''), 1200)}")
    if missing:
        inconclusive.append(f'monitors never reached: {missing}')
    n_distinct = len(distinct) + distinct_enum
    if counters.get('evaluations', 0) < 1 or n_distinct < 2:
        inconclusive.append('too few cases evaluated')
    wall = time.time() - t0
    level = LEVELS.get(prop, 'exploration')
    coverage = dict(
        evaluations=int(counters.get('evaluations', 0)),
        distinct_nontrivial=int(n_distinct),
        rule=meta.get('rule', ''),
        samples=samples or ['(none)'],
        counters={k: int(v) for k, v in sorted(counters.items())},
        observed={k: sorted(v)[:40] for k, v in notes.items()},
        shards=len(results),
        hash_seeds=sorted(hashseeds),
        known_findings_observed=sorted(seen_known),
        new_violation_keys=sorted(by_key),
        inconclusive=inconclusive,
        repo=REPO,
    )
    if exhaustive is not None:
        coverage['exhaustive'] = bool(exhaustive)
    ev = dict(
        property_id=prop, tier=tier, seed=int(seed), level=level,
        coverage=coverage,
        assumptions=meta.get('assumptions', []),
        wall_s=round(wall, 2),
        violations=len(by_key))
    os.makedirs(os.path.join(VERIF, 'evidence'), exist_ok=True)
    with open(os.path.join(VERIF, 'evidence', f'{prop}.json'), 'w') as f:
        json.dump(ev, f, indent=1, sort_keys=True)
    summary = (f'{prop} {tier} seed={seed}: evaluations='
               f'{coverage["evaluations"]} distinct={n_distinct} '
               f'shards={len(results)} wall={wall:.1f}s')
    print(summary)
    keyc = {k: v for k, v in counters.items() if k != 'evaluations'}
    print('  counters: ' + ', '.join(
        f'{k}={v}' for k, v in sorted(keyc.items())))
    if lines:
        for ln in lines:
            print(ln)
        return 1
    if inconclusive:
        for s in inconclusive:
            print(f'INCONCLUSIVE property={prop} {s}')
        return 2
    print(f'HELD property={prop} on everything explored')
    return 0


class Events:
    """Collects silent failures: unraisable exceptions and library
    warnings (M8)."""

    def __init__(self):
        self.unraisable = []
        self.warnings = []
        self._old_hook = None

    def install(self):
        self._old_hook = sys.unraisablehook

        def hook(u):
            self.unraisable.append(
                (type(u.exc_value).__name__, _short(u.exc_value, 300),
                 _short(u.object, 120)))
        sys.unraisablehook = hook
        warnings.simplefilter('always')
        self._old_show = warnings.showwarning

        def show(message, category, filename, lineno, file=None, line=None):
            self.warnings.append(
                (category.__name__, _short(message, 200), filename, lineno))
        warnings.showwarning = show

    def drain(self):
        u, w = self.unraisable[:], self.warnings[:]
        del self.unraisable[:]
        del self.warnings[:]
        return u, w


EVENTS = Events()
