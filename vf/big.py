"""History driver for instances beyond the reach of truth tables.

`vf.world.World` judges every reference by its complete truth table and is
therefore limited to about 8 variables. `BigWorld` works with 12-70
variables and managers of hundreds to thousands of nodes. The oracle is
pointwise: every held function carries its own *definition* (a DAG of
Python objects, `Fn`, evaluated directly on an assignment, with the
operations of the reference model written out once more for single
points), and a reference is judged by comparing, on a fixed sample of
assignments (structured and random ones), the value obtained by walking the
manager's node table with the value of the definition. Counting is judged
against an own dynamic program over the stored diagram (exact integers).
Structure, order maps and the reference-count ledger (M1, M2, M4) are
checked as in `World`; they are linear in the number of nodes.
Nothing here calls an algorithm of `dd` to obtain an expected value.
"""
import collections
import itertools
import os

from vf import monitors
from vf.common import Violation
from vf.oracle import raw as raw_of


# ----------------------------------------------------------- definitions
class Fn:
    """Definition of a Boolean function: evaluated on one assignment."""
    __slots__ = ('op', 'args', 'depth', 'uid', 'cost')
    _n = itertools.count()

    def __init__(self, op, *args):
        self.op = op
        self.args = args
        self.depth = 1 + max((a.depth for a in args if isinstance(a, Fn)),
                             default=0)
        self.uid = next(Fn._n)
        # upper bound on the work of one evaluation (operations that
        # change the assignment evaluate their operand afresh)
        kids = [a for a in args if isinstance(a, Fn)]
        c = 1 + sum(a.cost for a in kids)
        if op in ('exists', 'forall'):
            c = 1 + (2 ** len(args[1])) * args[0].cost
        elif op == 'compose':
            c = 1 + args[0].cost + sum(g.cost for g in args[1].values())
        self.cost = c

    def ev(self, a, memo=None):
        """Value under assignment `a` (dict name -> bool)."""
        if memo is None:
            memo = dict()
        # the memo is per assignment *object*: modified assignments get
        # their own memo
        k = self.uid
        if k in memo:
            return memo[k]
        op, x = self.op, self.args
        if op == 'var':
            r = a[x[0]]
        elif op == 'const':
            r = x[0]
        elif op == 'not':
            r = not x[0].ev(a, memo)
        elif op == 'and':
            r = x[0].ev(a, memo) and x[1].ev(a, memo)
        elif op == 'or':
            r = x[0].ev(a, memo) or x[1].ev(a, memo)
        elif op == 'xor':
            r = x[0].ev(a, memo) != x[1].ev(a, memo)
        elif op == 'implies':
            r = (not x[0].ev(a, memo)) or x[1].ev(a, memo)
        elif op == 'equiv':
            r = x[0].ev(a, memo) == x[1].ev(a, memo)
        elif op == 'diff':
            r = x[0].ev(a, memo) and not x[1].ev(a, memo)
        elif op == 'ite':
            r = x[1].ev(a, memo) if x[0].ev(a, memo) else x[2].ev(a, memo)
        elif op in ('exists', 'forall'):
            f, vs = x
            vals = []
            for bits in itertools.product((False, True), repeat=len(vs)):
                b = dict(a)
                b.update(zip(vs, bits))
                vals.append(f.ev(b))
            r = any(vals) if op == 'exists' else all(vals)
        elif op == 'cofactor':
            f, d = x
            b = dict(a)
            b.update(d)
            r = f.ev(b)
        elif op == 'rename':
            # f with every occurrence of `old` replaced by `new`
            f, ren = x
            b = dict(a)
            for old, new in ren.items():
                b[old] = a[new]
            r = f.ev(b)
        elif op == 'compose':
            f, sub = x
            b = dict(a)
            for v, g in sub.items():
                b[v] = g.ev(a, memo)
            r = f.ev(b)
        else:
            raise ValueError(op)
        r = bool(r)
        memo[k] = r
        return r


COST_CAP = 20000

BINOPS = {
    'and': 'and', '/\\': 'and', '&': 'and', '&&': 'and',
    'or': 'or', '\\/': 'or', '|': 'or', '||': 'or',
    'xor': 'xor', '#': 'xor', '^': 'xor',
    '=>': 'implies', '->': 'implies', 'implies': 'implies',
    '<=>': 'equiv', '<->': 'equiv', 'equiv': 'equiv',
    'diff': 'diff', '-': 'diff'}


def eval_bdd(bdd, u, a):
    """Value of reference `u` under assignment `a`, read from the node
    table only."""
    succ = bdd._succ
    l2v = bdd._level_to_var
    neg = u < 0
    u = abs(u)
    while u != 1:
        i, v, w = succ[u]
        if a[l2v[i]]:
            u = w
        else:
            if v < 0:
                neg = not neg
            u = abs(v)
    return not neg


def count_models(bdd, u, nvars=None):
    """Number of models of `u` over its support (or over `nvars`
    variables), by an own recursion over the stored diagram."""
    succ = bdd._succ
    levels = set()
    seen = set()
    stack = [abs(u)]
    while stack:
        x = stack.pop()
        if x in seen or x == 1:
            continue
        seen.add(x)
        i, v, w = succ[x]
        levels.add(i)
        stack.append(abs(v))
        stack.append(w)
    order = sorted(levels)
    pos = {lv: k for k, lv in enumerate(order)}
    k = len(order)
    memo = dict()

    def rec(x):
        # (models of regular node x over the support levels at or below
        # its own position)
        if x == 1:
            return 1, k
        if x in memo:
            return memo[x]
        i, v, w = succ[x]
        p = pos[i]
        cv, pv = rec(abs(v))
        if v < 0:
            cv = (1 << (k - pv)) - cv
        cw, pw = rec(w)
        r = (cv << (pv - p - 1)) + (cw << (pw - p - 1))
        memo[x] = (r, p)
        return memo[x]
    import sys
    old = sys.getrecursionlimit()
    sys.setrecursionlimit(max(old, 10 * (k + 10)))
    try:
        c, p = rec(abs(u))
    finally:
        sys.setrecursionlimit(old)
    total = c << p
    if u < 0:
        total = (1 << k) - total
    if nvars is not None:
        total <<= (nvars - k)
    return total, k


def node_of(h):
    return h if isinstance(h, int) else h.node


class Held:
    __slots__ = ('h', 'fn')

    def __init__(self, h, fn):
        self.h = h
        self.fn = fn


class BigWorld:
    """A manager with N variables, held references with definitions."""

    def __init__(self, ctx, rng, n, kind='bdd', registry=None,
                 reordering=False, samples=40, interleave=None,
                 shuffle=None):
        import dd.bdd as _b
        import dd.autoref as _a
        self.ctx, self.rng, self.kind = ctx, rng, kind
        self._b, self._a = _b, _a
        self.n = n
        half = n // 2
        self.xs = [f'x{i}' for i in range(half)]
        self.ys = [f'y{i}' for i in range(n - half)]
        names = self.xs + self.ys
        if interleave is None:
            interleave = rng.random() < 0.5
        if interleave:
            order = [v for p in itertools.zip_longest(self.xs, self.ys)
                     for v in p if v is not None]
        else:
            order = names[:]
        if shuffle is None:
            shuffle = rng.random() < 0.3
        if shuffle:
            rng.shuffle(order)
        levels = {v: i for i, v in enumerate(order)}
        self.size_cap = 12000
        self.hold_limit = None
        self.pinned = []      # pool entries that are never dropped
        self.bias = 0.0       # probability that `pick` returns a pinned one
        keys = list(levels)
        rng.shuffle(keys)   # insertion order != level order
        levels = {v: levels[v] for v in keys}
        self.bdd = _b.BDD(levels) if kind == 'bdd' else _a.BDD(levels)
        self.raw = raw_of(self.bdd)
        self.names = names
        self.pool = []
        self.ext = collections.Counter()
        self.registry = registry
        self.reordering = reordering
        if reordering:
            self.bdd.configure(reordering=True)
        self.log = []
        self.site = 'init'
        # sample assignments: structured ones and random ones
        S = [dict.fromkeys(names, False), dict.fromkeys(names, True)]
        for k in range(min(n, 8)):
            v = rng.choice(names)
            a = dict.fromkeys(names, False)
            a[v] = True
            S.append(a)
            b = dict.fromkeys(names, True)
            b[v] = False
            S.append(b)
        # x == y pointwise, and x == y except one bit (for comparators)
        eq = {v: rng.random() < 0.5 for v in self.xs}
        a = dict(eq)
        a.update({f'y{i}': eq[f'x{i}'] for i in range(len(self.xs))
                  if f'y{i}' in levels})
        for v in names:
            a.setdefault(v, False)
        S.append(a)
        for _ in range(samples):
            p = rng.random()
            S.append({v: rng.random() < p for v in names})
        self.samples = S

    # -------------------------------------------------------- holding
    def hold(self, h, fn):
        if self.kind == 'bdd':
            self.raw.incref(h)
            self.ext[abs(h)] += 1
        self.pool.append(Held(h, fn))

    def drop(self, idx):
        e = self.pool.pop(idx)
        if self.kind == 'bdd':
            self.raw.decref(e.h)
            self.ext[abs(e.h)] -= 1
            if not self.ext[abs(e.h)]:
                del self.ext[abs(e.h)]
        e.h = None

    def external(self):
        if self.kind == 'bdd':
            return self.ext
        return collections.Counter(self.registry.external(self.raw))

    def _small(self):
        c = [e for e in self.pool if e not in self.pinned]
        return self.rng.choice(c) if c else None

    def pick(self, max_depth=9):
        if self.pinned and self.rng.random() < self.bias:
            return self.rng.choice(self.pinned)
        c = [e for e in self.pool if e.fn.depth <= max_depth]
        return self.rng.choice(c or self.pool)

    # -------------------------------------------------------- judging
    def judge(self, site, h, fn, extra=()):
        u = node_of(h)
        if abs(u) not in self.raw._succ:
            raise Violation(site, 'result-not-a-stored-node', u)
        for a in itertools.chain(self.samples, extra):
            got = eval_bdd(self.raw, u, a)
            want = fn.ev(a)
            if got != want:
                raise Violation(
                    site, 'wrong-value-at-sampled-assignment',
                    dict(got=got, want=want,
                         true_vars=sorted(v for v, b in a.items() if b)[:40],
                         nodes=len(self.raw), n=self.n))
        self.ctx.count('sampled_evaluations', len(self.samples))

    def accept(self, site, h, fn):
        self.site = site
        self.judge(site, h, fn)
        if self.hold_limit is not None and \
                len(monitors.reachable(self.raw, [node_of(h)])) > \
                self.hold_limit:
            # judged, but too large to keep as an operand
            self.ctx.count('large_results_judged')
            return
        if fn.cost > COST_CAP:
            # judged, but its definition is too expensive to evaluate
            # again after every later step
            self.ctx.count('costly_definitions_judged_once')
            return
        self.hold(h, fn)

    def check(self, site=None):
        site = site or self.site
        try:
            monitors.check_structure(self.raw)
            monitors.check_order_maps(self.bdd)
            monitors.check_ledger(self.raw, self.external())
        except Violation as v:
            v.site = site
            raise
        for e in self.pool:
            self.judge(site, e.h, e.fn)
        self.ctx.count('quiescent_checks')
        self.ctx.note('nodes_seen_hundreds', len(self.raw) // 100)

    # -------------------------------------------------------- builders
    def _var(self, v):
        return self.bdd.var(v), Fn('var', v)

    def _tmp(self):
        """Context for intermediate dd.bdd results (held while used)."""
        world = self

        class T:
            def __enter__(s):
                s.tmp = []
                return s

            def keep(s, h):
                if world.kind == 'bdd':
                    world.raw.incref(h)
                    s.tmp.append(h)
                return h

            def __exit__(s, *exc):
                for h in s.tmp:
                    world.raw.decref(h)
        return T()

    def s_comparator(self):
        """/\\_i (x_i <=> y_i) over a random subset of pairs: large under
        a separated order, small under an interleaved one."""
        k = min(len(self.xs), len(self.ys))
        idx = self.rng.sample(range(k), self.rng.randint(2, min(k, 9)))
        with self._tmp() as t:
            h, fn = self.bdd.true, Fn('const', True)
            for i in idx:
                x, fx = self._var(f'x{i}')
                t.keep(x)
                y, fy = self._var(f'y{i}')
                t.keep(y)
                e = t.keep(self.bdd.apply('<=>', x, y))
                h = t.keep(self.bdd.apply('and', h, e))
                fn = Fn('and', fn, Fn('equiv', fx, fy))
            self.accept('apply', h, fn)
        return ('comparator', len(idx))

    def s_dnf(self):
        """Random DNF: cubes through `cube`, joined with `or`."""
        with self._tmp() as t:
            h, fn = self.bdd.false, Fn('const', False)
            for _ in range(self.rng.randint(2, 7)):
                vs = self.rng.sample(self.names,
                                     self.rng.randint(2, min(6, self.n)))
                d = {v: self.rng.random() < 0.5 for v in vs}
                c = t.keep(self.bdd.cube(d))
                fc = Fn('const', True)
                for v, b in d.items():
                    lit = Fn('var', v)
                    fc = Fn('and', fc, lit if b else Fn('not', lit))
                h = t.keep(self.bdd.apply('or', h, c))
                fn = Fn('or', fn, fc)
            self.accept('cube/or', h, fn)
        return ('dnf',)

    def s_parity(self):
        vs = self.rng.sample(self.names, self.rng.randint(3, min(self.n, 24)))
        with self._tmp() as t:
            h, fn = self.bdd.false, Fn('const', False)
            for v in vs:
                x, fx = self._var(v)
                t.keep(x)
                h = t.keep(self.bdd.apply('xor', h, x))
                fn = Fn('xor', fn, fx)
            self.accept('xor', h, fn)
        return ('parity', len(vs))

    def s_wide(self):
        """A disjunction or conjunction of literals over most of the
        variables (a chain of n nodes; up to 2**n - 1 models)."""
        vs = self.rng.sample(self.names,
                             self.rng.randint(self.n // 2, self.n))
        conj = self.rng.random() < 0.4
        d = {v: self.rng.random() < 0.8 for v in vs}
        if conj:
            h = self.bdd.cube(d)
            fn = Fn('const', True)
            for v, b in d.items():
                lit = Fn('var', v)
                fn = Fn('and', fn, lit if b else Fn('not', lit))
            self.accept('cube', h, fn)
            return ('wide-cube', len(vs))
        lits = [v if b else f'~ {v}' for v, b in d.items()]
        h = self.bdd.add_expr(' \\/ '.join(lits))
        fn = Fn('const', False)
        for v, b in d.items():
            lit = Fn('var', v)
            fn = Fn('or', fn, lit if b else Fn('not', lit))
        self.accept('add_expr', h, fn)
        return ('wide-or', len(vs))

    def s_threshold(self):
        """At least 2 of k variables, through add_expr."""
        vs = self.rng.sample(self.names, self.rng.randint(3, 6))
        terms = [f'({a} /\\ {b})' for a, b in itertools.combinations(vs, 2)]
        h = self.bdd.add_expr(' \\/ '.join(terms))
        fn = Fn('const', False)
        for a, b in itertools.combinations(vs, 2):
            fn = Fn('or', fn, Fn('and', Fn('var', a), Fn('var', b)))
        self.accept('add_expr', h, fn)
        return ('threshold', len(vs))

    # -------------------------------------------------------- operations
    def s_apply(self):
        sym = self.rng.choice(sorted(BINOPS))
        a, b = self.pick(), self.pick()
        if a in self.pinned and b in self.pinned:
            b = self._small() or b
        h = self.bdd.apply(sym, a.h, b.h)
        self.accept('apply', h, Fn(BINOPS[sym], a.fn, b.fn))
        return ('apply', sym)

    def s_not(self):
        a = self.pick()
        h = self.bdd.apply('not', a.h) if self.rng.random() < 0.5 else \
            (~a.h if self.kind == 'autoref' else -a.h)
        self.accept('not', h, Fn('not', a.fn))
        return ('not',)

    def s_ite(self):
        g, a, b = self.pick(), self.pick(), self.pick()
        if self.pinned:
            g = self._small() or g
            if a in self.pinned and b in self.pinned:
                b = self._small() or b
        h = self.bdd.ite(g.h, a.h, b.h)
        self.accept('ite', h, Fn('ite', g.fn, a.fn, b.fn))
        return ('ite',)

    def s_quantify(self):
        a = self.pick(7)
        vs = self.rng.sample(self.names, self.rng.randint(1, 3))
        fa = self.rng.random() < 0.5
        how = self.rng.randrange(3)
        if how == 0:
            h = self.bdd.quantify(a.h, set(vs), forall=fa)
        elif how == 1:
            h = (self.bdd.forall if fa else self.bdd.exist)(iter(vs), a.h)
        else:
            h = self.bdd.quantify(a.h, vs, fa)
        self.accept('quantify', h,
                    Fn('forall' if fa else 'exists', a.fn, tuple(vs)))
        return ('quantify', fa, tuple(vs))

    def s_quantify_many(self):
        """Quantify many variables at once; the definition quantifies
        them one small group at a time (the same function)."""
        a = self.pick(5)
        if self.rng.random() < 0.5:
            # nearly all the variables
            k = self.n - self.rng.randint(1, 3)
        else:
            k = self.rng.randint(4, self.n - 1)
        vs = self.rng.sample(self.names, k)
        fa = self.rng.random() < 0.5
        how = self.rng.randrange(4)
        if how == 0:
            h = self.bdd.quantify(a.h, vs, forall=fa)
        elif how == 1:
            h = (self.bdd.forall if fa else self.bdd.exist)(set(vs), a.h)
        elif how == 2:
            # through the formula syntax: one binder with many names
            u = node_of(a.h)
            h = self.bdd.add_expr('{q} {names}: @{u}'.format(
                q='\\A' if fa else '\\E', names=', '.join(vs), u=u))
            self.ctx.count('binders_with_many_names')
        else:
            # apply(quantifier, cube of the variables, operand)
            c = self.bdd.cube(dict.fromkeys(vs, True))
            if self.kind == 'bdd':
                self.raw.incref(c)
            try:
                h = self.bdd.apply('\\A' if fa else '\\E', c, a.h)
            finally:
                if self.kind == 'bdd':
                    self.raw.decref(c)
            del c
        # judge on assignments only (2^k evaluations per point are too
        # many): the result does not depend on the quantified variables,
        # and it is implied by / implies the operand
        u = node_of(h)
        sup = self.raw.support(u)
        if sup & set(vs):
            raise Violation('quantify', 'result-depends-on-quantified',
                            sorted(sup & set(vs)))
        for s in self.samples:
            got = eval_bdd(self.raw, u, s)
            op = a.fn.ev(s)
            if fa and got and not op:
                raise Violation('quantify', 'forall-not-below-operand', None)
            if not fa and op and not got:
                raise Violation('quantify', 'exists-not-above-operand', None)
        self.ctx.count('many_variable_quantifications')
        # not held: no exact definition
        if self.kind == 'bdd':
            pass
        return ('quantify-many', fa, k)

    def s_let_const(self):
        a = self.pick()
        vs = self.rng.sample(self.names, self.rng.randint(1, 5))
        d = {v: self.rng.random() < 0.5 for v in vs}
        h = self.bdd.let(d, a.h)
        self.accept('let-constants', h, Fn('cofactor', a.fn, d))
        return ('let-const', len(d))

    def s_let_rename(self):
        a = self.pick()
        k = self.rng.randint(1, min(6, self.n))
        olds = self.rng.sample(self.names, k)
        d = {v: self.rng.choice(self.names) for v in olds}
        if self.hold_limit is not None:
            # (big operand: rename single variables onto variables
            # outside its support, which keeps its size)
            u = node_of(a.h)
            sup = self.raw.support(u)
            free = [v for v in self.names if v not in sup]
            if free and sup:
                olds = self.rng.sample(sorted(sup), min(len(sup), 2))
                news = self.rng.sample(free, min(len(free), len(olds)))
                d = dict(zip(olds, news))
        h = self.bdd.let(d, a.h)
        self.accept('let-rename', h, Fn('rename', a.fn, d))
        return ('let-rename', k)

    def s_let_compose(self):
        a = self.pick(6)
        k = self.rng.randint(1, 3)
        vs = self.rng.sample(self.names, k)
        subs = {v: self.pick(6) for v in vs}
        if self.hold_limit is not None:
            small = [e for e in self.pool if e not in self.pinned]
            if not small:
                return ('let-compose-skip',)
            subs = {v: self.rng.choice(small) for v in vs[:1]}
        d = {v: e.h for v, e in subs.items()}
        h = self.bdd.let(d, a.h)
        self.accept('let-compose', h,
                    Fn('compose', a.fn, {v: e.fn for v, e in subs.items()}))
        return ('let-compose', k)

    # -------------------------------------------------------- queries
    def s_count(self):
        e = self.pick()
        u = node_of(e.h)
        want, k = count_models(self.raw, u)
        got = self.bdd.count(e.h)
        if got != want or not isinstance(got, int):
            raise Violation('count', 'wrong-count',
                            dict(got=got, want=want, support=k))
        extra = self.rng.randint(0, self.n - k) if self.n > k else 0
        got2 = self.bdd.count(e.h, k + extra)
        if got2 != want << extra:
            raise Violation('count', 'wrong-count',
                            dict(got=got2, want=want << extra, n=k + extra))
        sup = self.bdd.support(e.h)
        lv = {self.raw._succ[x][0]
              for x in monitors.reachable(self.raw, [u]) if x != 1}
        if sup != {self.raw._level_to_var[i] for i in lv}:
            raise Violation('support', 'wrong-support', sorted(sup))
        self.ctx.count('counts_checked')
        self.ctx.note('count_bits_tens', (want << extra).bit_length() // 10)
        # some models
        n = 0
        seen = []
        for m in self.bdd.pick_iter(e.h):
            a = dict(self.samples[0])
            a.update(m)
            if set(m) != sup:
                raise Violation('pick_iter', 'assignment-not-over-support',
                                sorted(m))
            if not eval_bdd(self.raw, u, a):
                raise Violation('pick_iter', 'assignment-not-a-model', m)
            if m in seen:
                raise Violation('pick_iter', 'assignment-repeated', m)
            seen.append(m)
            n += 1
            if n >= 25:
                break
        if n < min(25, want):
            raise Violation('pick_iter', 'too-few-models',
                            dict(got=n, count=want))
        p = self.bdd.pick(e.h)
        if (p is None) != (want == 0):
            raise Violation('pick', 'none-iff-false-violated', p)
        return ('count', k)

    def s_views(self):
        e = self.pick()
        u = node_of(e.h)
        reach = monitors.reachable(self.raw, [u])
        d = self.raw.descendants(iter([u]))
        if set(d) != reach:
            raise Violation('descendants', 'wrong-node-set',
                            (len(d), len(reach)))
        g = self._b.to_nx(self.raw, (x for x in [u]))
        if set(g.nodes) != reach:
            raise Violation('to_nx', 'wrong-node-set',
                            (len(g.nodes), len(reach)))
        for x in g.nodes:
            if g.nodes[x].get('level') != self.raw._succ[x][0]:
                raise Violation('to_nx', 'wrong-level-attribute', x)
        if self.kind == 'autoref':
            if len(e.h) != len(reach) or e.h.dag_size != len(reach):
                raise Violation('Function.__len__', 'wrong-size',
                                (len(e.h), len(reach)))
        self.ctx.count('view_checks')
        return ('views', len(reach))

    # -------------------------------------------------------- lifetime
    def s_drop(self):
        c = [i for i, e in enumerate(self.pool) if e not in self.pinned]
        if c:
            self.drop(self.rng.choice(c))
        return ('drop',)

    def s_swap_back(self):
        """One adjacent swap and the same swap again (the order and the
        sizes return to what they were)."""
        if self.kind != 'bdd':
            return ('swap-skip',)
        i = self.rng.randrange(self.n - 1)
        before = len(self.raw)
        self.raw.swap(i, i + 1)
        mid = len(self.raw)
        for e in self.pinned:
            self.judge('swap', e.h, e.fn)
        self.raw.swap(i, i + 1)
        self.ctx.count('swap_calls', 2)
        self.ctx.note('level_swapped_with_nodes_hundreds',
                      max(before, mid) // 100)
        return ('swap-back', i)

    def s_gc(self):
        before = len(self.raw)
        self.bdd.collect_garbage()
        ext = self.external()
        keep = monitors.reachable(self.raw, [u for u, c in ext.items() if c])
        keep.add(1)
        if set(self.raw._succ) != keep:
            raise Violation('collect_garbage', 'stored-set-not-reachable-set',
                            (len(self.raw._succ), len(keep)))
        self.ctx.count('gc_calls')
        self.ctx.count('gc_freed_nodes', before - len(self.raw))
        return ('gc', before - len(self.raw))

    def s_swap(self):
        if self.kind != 'bdd':
            return ('swap-skip',)
        i = self.rng.randrange(self.n - 1)
        self.raw.swap(i, i + 1)
        self.ctx.count('swap_calls')
        return ('swap', i)

    def s_reorder_to(self):
        """Reorder to a given order that is a bounded perturbation of the
        current one (a few adjacent transpositions and one block moved
        by up to three levels): an arbitrary permutation can blow a
        diagram of this size up exponentially, which would only measure
        the harness' patience."""
        order = sorted(self.raw.vars, key=self.raw.vars.get)
        for _ in range(self.rng.randint(1, 6)):
            i = self.rng.randrange(self.n - 1)
            order[i], order[i + 1] = order[i + 1], order[i]
        i = self.rng.randrange(self.n)
        v = order.pop(i)
        order.insert(max(0, min(self.n - 1, i + self.rng.randint(-3, 3))), v)
        target = {v: i for i, v in enumerate(order)}
        keys = list(target)
        self.rng.shuffle(keys)
        target = {v: target[v] for v in keys}
        if self.kind == 'bdd':
            self._b.reorder(self.raw, target)
        else:
            self.bdd.reorder(target)
        if dict(self.raw.vars) != target:
            raise Violation('reorder(order)', 'requested-order-not-reached',
                            None)
        self.ctx.count('reorder_to_calls')
        return ('reorder-to',)

    def s_sift(self):
        if len(self.raw) > 500 or self.n > 30:
            return ('sift-skip',)
        before = len(self.raw)
        self.bdd.collect_garbage()
        n0 = len(self.raw)
        if self.kind == 'bdd':
            self._b.reorder(self.raw)
        else:
            self.bdd.reorder()
        if len(self.raw) > n0:
            raise Violation('reorder', 'sifting-increased-size',
                            (n0, len(self.raw)))
        self.ctx.count('sift_calls')
        return ('sift', before, len(self.raw))

    def s_burst(self):
        """Many operations without a collection in between (thousands of
        computed-table entries), everything dropped and collected, then
        another such burst that re-uses the freed node numbers for other
        functions."""
        import random
        kinds = ('comparator', 'dnf', 'parity', 'threshold', 'apply',
                 'apply', 'apply', 'ite', 'let_const')
        saved = self.rng
        base = len(self.pool)
        self.s_gc()
        length = saved.choice((6, 10, 15, 25, 40))
        for seed in (saved.getrandbits(32), saved.getrandbits(32)):
            self.rng = random.Random(seed)
            try:
                for _ in range(length):
                    k = self.rng.choice(kinds)
                    if len(self.pool) < 3:
                        k = 'dnf'
                    getattr(self, 's_' + k)()
                self.ctx.note('table_entries_in_burst_hundreds',
                              len(self.raw._ite_table) // 100)
            finally:
                self.rng = saved
            for e in self.pool:
                self.judge('burst', e.h, e.fn)
            while len(self.pool) > base:
                self.drop(len(self.pool) - 1)
            self.s_gc()
        self.ctx.count('bursts')
        return ('burst',)

    def s_rearm(self):
        if not self.reordering:
            return ('rearm-skip',)
        self.bdd.configure(reordering=True)
        return ('rearm',)

    # -------------------------------------------------------- transfer
    def s_copy(self):
        """Into a manager with another order (and extra variables), all
        public routes."""
        import dd._copy as _c
        e = self.pick()
        order = list(self.raw.vars) + ['extra0', 'extra1']
        self.rng.shuffle(order)
        lv = {v: i for i, v in enumerate(order)}
        if self.kind == 'bdd':
            other = self._b.BDD(lv)
            v = (self.raw.copy(e.h, other) if self.rng.random() < 0.5
                 else self._b.copy_bdd(e.h, self.raw, other))
            other.incref(v)
            un, oraw = v, other
        else:
            other = self._a.BDD(lv)
            route = self.rng.randrange(4)
            if route == 0:
                v = self.bdd.copy(e.h, other)
            elif route == 1:
                v = self._a.copy_bdd(e.h, other)
            elif route == 2:
                v = _c.copy_bdd(e.h, other)
            else:
                v = _c.copy_bdds_from(iter([e.h]), other)[0]
            un, oraw = v.node, other._bdd
        for a in self.samples:
            b = dict(a, extra0=False, extra1=True)
            if eval_bdd(oraw, un, b) != e.fn.ev(a):
                raise Violation('copy', 'copy-denotes-other-function',
                                dict(nodes=len(oraw)))
        monitors.check_structure(oraw)
        if self.kind == 'bdd':
            other.decref(v)
        del v
        self.ctx.count('copies')
        return ('copy', len(oraw))

    def s_dump_load(self):
        """Pickle / JSON round trip into a manager with another order."""
        es = [self.pick() for _ in range(self.rng.randint(1, 3))]
        pid = os.getpid()
        order = list(self.raw.vars)
        self.rng.shuffle(order)
        lv = {v: i for i, v in enumerate(order)}
        fmt = 'p' if self.kind == 'bdd' or self.rng.random() < 0.5 else 'json'
        fn = f'big{pid}.{fmt}'
        try:
            self.bdd.dump(fn, [e.h for e in es])
            if self.kind == 'bdd':
                other = self._b.BDD(lv)
                back = other.load(fn, levels=False)
                oraw = other
                nodes = list(back)
            else:
                other = self._a.BDD(lv)
                back = other.load(fn, levels=False) if fmt == 'p' \
                    else other.load(fn)
                oraw = other._bdd
                nodes = [b.node for b in back]
        finally:
            if os.path.exists(fn):
                os.remove(fn)
        if len(nodes) != len(es):
            raise Violation('load', 'number-of-roots-differs',
                            (len(nodes), len(es)))
        for e, u in zip(es, nodes):
            for a in self.samples:
                if eval_bdd(oraw, u, a) != e.fn.ev(a):
                    raise Violation('load-' + fmt,
                                    'loaded-root-denotes-other-function',
                                    dict(nodes=len(oraw)))
        monitors.check_structure(oraw)
        del back
        self.ctx.count('round_trips_' + fmt)
        return ('dump-load', fmt, len(oraw))

    # -------------------------------------------------------- driver
    def step(self, menu):
        names = [k for k, w in menu.items() if w > 0]
        weights = [menu[k] for k in names]
        builders = ('comparator', 'dnf', 'parity', 'threshold', 'wide')
        if len(self.pool) < 3:
            k = self.rng.choice([b for b in builders if menu.get(b, 1)]
                                or builders)
        else:
            k = self.rng.choices(names, weights)[0]
            if len(self.pool) > 10 and k in builders:
                k = 'drop'
        while len(self.pool) - len(self.pinned) > 14:
            # (every held definition is evaluated again after each step)
            self.s_drop()
        if len(self.raw) > self.size_cap:
            # keep the manager within what a step can check quickly
            for _ in range(len(self.pool)):
                self.s_drop()
            k = 'gc'
            self.ctx.count('size_cap_reached')
        self.site = k
        desc = getattr(self, 's_' + k)()
        self.log.append(desc)
        self.ctx.count('steps')
        self.ctx.count('step_' + k)
        self.check(k)
        return desc

    def finish(self):
        while self.pool:
            self.drop(len(self.pool) - 1)
        import gc
        gc.collect()
        ext = self.external()
        if any(ext.values()):
            raise Violation('shutdown', 'references-left', dict(ext))
        self.bdd.collect_garbage()
        if len(self.raw) != 1:
            raise Violation('shutdown',
                            'nodes-left-after-releasing-everything',
                            len(self.raw))


MENU = dict(comparator=3, dnf=3, parity=2, threshold=2, wide=2, apply=10,
            ite=4,
            quantify=4, quantify_many=1, burst=0, let_const=2, let_rename=2,
            let_compose=2, count=4, views=2, drop=8, gc=3, swap=3,
            reorder_to=1, sift=1, copy=2, dump_load=2, **{'not': 1})


def history(ctx, spec, menu=None):
    """One big history. `spec`: sub, n, steps, manager, dynamic."""
    import dd.bdd as _b
    rng = ctx.rng('big', spec['sub'])
    kind = spec.get('manager', 'bdd')
    reg = None
    if kind == 'autoref':
        reg = monitors.HandleRegistry()
        reg.install()
    dynamic = bool(spec.get('dynamic'))
    m = dict(MENU)
    m.update(menu or {})
    if dynamic:
        # default thresholds: these managers grow past 100 nodes
        m.update(rearm=2, swap=0)
    try:
        w = BigWorld(ctx, rng, spec['n'], kind=kind, registry=reg,
                     reordering=dynamic)
        for k in range(spec['steps']):
            ok, _ = ctx.guard(w.site, w.step, m, case=dict(
                spec=spec, step=k,
                tail=[list(map(str, d)) for d in w.log[-8:]]))
            if not ok:
                return
            ctx.case(True, 'big', spec['sub'], k)
        ctx.counters['big_histories'] += 1
        ctx.sample(dict(kind='big', n=spec['n'], manager=kind,
                        dynamic=dynamic, nodes=len(w.raw),
                        last_steps=[list(map(str, d)) for d in w.log[-5:]]))
        ctx.guard('shutdown', w.finish)
    finally:
        if reg:
            reg.uninstall()


# per-property emphasis (weights override MENU)
MENUS = dict(
    C01=dict(apply=16, ite=8, quantify=1, let_const=0, let_rename=0,
             let_compose=0, count=1, views=0, copy=0, dump_load=0, burst=2),
    C02=dict(copy=4, dump_load=3, count=1),
    C03=dict(quantify=12, quantify_many=8, apply=6),
    C05=dict(threshold=6, wide=4, quantify_many=8, quantify=2, apply=6,
             let_const=0, let_rename=0, let_compose=0, copy=0, dump_load=0,
             views=0, count=1),
    C04=dict(let_const=6, let_rename=7, let_compose=7, quantify=1),
    C06=dict(drop=12, gc=8, swap=6, reorder_to=2, sift=2, count=1, views=0,
             copy=0, dump_load=0, burst=3),
    C07=dict(swap=10, reorder_to=4, sift=3, gc=2, copy=0, dump_load=0),
    C08=dict(drop=12, gc=6, reorder_to=2, sift=2, burst=3),
    C09=dict(apply=12, ite=5, quantify=5, let_rename=3, let_compose=3,
             copy=2, dump_load=2),
    C10=dict(count=14, views=2, apply=6, wide=8, parity=4),
    C11=dict(copy=12, dump_load=0, apply=6),
    C12=dict(dump_load=12, copy=0, apply=6),
    C18=dict(views=12, count=2, apply=6, swap=4, gc=4),
)
MANAGER = dict(C08='autoref', C09=None)


def specs(tier, seed, prop):
    """Shard specs of kind `big` for property `prop`."""
    out = []
    sizes = (12, 24, 40, 70)
    nq = 4 if tier == 'quick' else 32
    for k in range(nq):
        kind = MANAGER.get(prop, None) or ('autoref' if k % 3 == 2 else 'bdd')
        out.append(dict(kind='big', prop=prop, sub=k + 100 * seed,
                        n=sizes[k % 4],
                        steps=150 if tier == 'quick' else 600,
                        manager=kind,
                        dynamic=(prop == 'C09') or
                                (prop in ('C01', 'C03', 'C04', 'C08') and
                                 k % 4 == 1),
                        hashseed=k))
    if prop in HUGE_MENUS:
        for k in range(1 if tier == 'quick' else 6):
            kind = 'autoref' if prop == 'C08' or k % 3 == 2 else 'bdd'
            if prop == 'C07':
                kind = 'bdd'
            out.append(dict(kind='big', huge=True, prop=prop,
                            sub=k + 100 * seed, pairs=15,
                            steps=30 if tier == 'quick' else 80,
                            manager=kind, hashseed=k))
    return out


def run(ctx, spec):
    if spec.get('huge'):
        return huge(ctx, spec)
    return history(ctx, spec, MENUS.get(spec['prop']))


# ------------------------------------------------------------ huge
HUGE_MENUS = dict(
    C01=dict(apply=10, ite=5, **{'not': 2}),
    C03=dict(quantify=10, apply=3),
    C04=dict(let_const=4, let_rename=5, let_compose=6, apply=2),
    C06=dict(apply=5, drop=8, gc=6, swap_back=3, ite=2),
    C07=dict(swap_back=10, apply=2, gc=2),
    C08=dict(apply=6, ite=3, drop=8, gc=6),
    C10=dict(count=10, apply=3, views=2),
    C11=dict(copy=8, apply=3),
    C12=dict(dump_load=6, apply=3),
    C18=dict(views=10, apply=3, swap_back=2),
)


def huge(ctx, spec):
    """Operations on one function of tens of thousands of nodes, in a
    manager whose node numbers pass 2**16: /\\_i (x_i <=> y_i) under the
    order x0 < x1 < ... < y0 < y1 < ... (3 * 2**pairs nodes)."""
    rng = ctx.rng('huge', spec['sub'])
    kind = spec.get('manager', 'bdd')
    pairs = spec.get('pairs', 15)
    reg = None
    if kind == 'autoref':
        reg = monitors.HandleRegistry()
        reg.install()
    try:
        w = BigWorld(ctx, rng, 2 * pairs + 8, kind=kind, registry=reg,
                     interleave=False, shuffle=False, samples=30)
        w.size_cap = 10 ** 9
        w.hold_limit = 3000
        # sample points on which the big function is true, or nearly so
        for _ in range(12):
            a = {v: rng.random() < 0.5 for v in w.names}
            for i in range(pairs):
                a[f'y{i}'] = a[f'x{i}']
            if rng.random() < 0.5:
                a[f'y{rng.randrange(pairs)}'] ^= True
            w.samples.append(a)
        # the big function, built from the lowest pair upwards
        with w._tmp() as t:
            h, fn = w.bdd.true, Fn('const', True)
            for i in reversed(range(pairs)):
                x, fx = w._var(f'x{i}')
                t.keep(x)
                y, fy = w._var(f'y{i}')
                t.keep(y)
                e = t.keep(w.bdd.apply('<=>', x, y))
                h = t.keep(w.bdd.apply('and', e, h))
                fn = Fn('and', Fn('equiv', fx, fy), fn)
            w.judge('apply', h, fn)
            w.hold(h, fn)
        del h, x, y, e, t
        w.pinned.append(w.pool[0])
        w.bias = 0.5
        ctx.note('huge_nodes_thousands', len(w.raw) // 1000)
        ctx.counters['max_node_number'] = max(
            ctx.counters['max_node_number'], max(w.raw._succ))
        if max(w.raw._succ) < 2 ** 16:
            raise Violation('huge', 'harness-built-too-small-a-manager',
                            len(w.raw))
        w.check('build')
        menu = dict(dnf=3, threshold=2, parity=1, drop=4, gc=2)
        menu.update(HUGE_MENUS.get(spec['prop'], {}))
        for k in range(spec['steps']):
            ok, _ = ctx.guard(w.site, w.step, menu, case=dict(
                spec=spec, step=k,
                tail=[list(map(str, d)) for d in w.log[-8:]]))
            if not ok:
                return
            ctx.case(True, 'huge', spec['sub'], k)
        ctx.counters['huge_histories'] += 1
        ctx.counters['max_node_number'] = max(
            ctx.counters['max_node_number'], max(w.raw._succ))
        ctx.sample(dict(kind='huge', pairs=pairs, manager=kind,
                        nodes=len(w.raw), max_node=max(w.raw._succ),
                        last_steps=[list(map(str, d)) for d in w.log[-5:]]))
        w.pinned.clear()
        ctx.guard('shutdown', w.finish)
    finally:
        if reg:
            reg.uninstall()
