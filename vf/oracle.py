"""Truth-table oracle, independent of the algorithms under test.

A Boolean function over the variable names `names` (a sorted tuple) is a
Python int: bit `k` is the value under assignment number `k`, where in
assignment `k` variable `names[i]` has the value of bit `i` of `k`.
Nothing in this module calls an algorithm of `dd`; `denote` only reads the
node table (`_succ`) and the level/name map of a manager.
"""
import functools


class Space:
    """The assignments over a fixed, sorted tuple of names."""

    _cache = dict()

    def __new__(cls, names):
        names = tuple(sorted(names))
        sp = cls._cache.get(names)
        if sp is None:
            sp = object.__new__(cls)
            sp._init(names)
            cls._cache[names] = sp
        return sp

    def _init(self, names):
        self.names = names
        self.n = n = len(names)
        self.size = 1 << n
        self.full = (1 << self.size) - 1
        self.index = {v: i for i, v in enumerate(names)}
        # VAR[i]: table of the projection on variable i
        self.VAR = []
        for i in range(n):
            block = ((1 << (1 << i)) - 1) << (1 << i)
            period = 1 << (i + 1)
            t = 0
            for off in range(0, self.size, period):
                t |= block << off
            self.VAR.append(t)

    # ---- elementary tables
    def var(self, name):
        return self.VAR[self.index[name]]

    def const(self, b):
        return self.full if b else 0

    # ---- connectives
    def NOT(self, a):
        return self.full ^ a

    def AND(self, a, b):
        return a & b

    def OR(self, a, b):
        return a | b

    def XOR(self, a, b):
        return a ^ b

    def IMPLIES(self, a, b):
        return (self.full ^ a) | b

    def EQUIV(self, a, b):
        return self.full ^ (a ^ b)

    def DIFF(self, a, b):
        return a & (self.full ^ b)

    def ITE(self, g, a, b):
        return (g & a) | ((self.full ^ g) & b)

    # ---- cofactors, quantifiers, support
    def cof(self, t, name, val):
        i = self.index[name]
        m = self.VAR[i]
        s = 1 << i
        if val:
            c = t & m
            return c | (c >> s)
        c = t & (self.full ^ m)
        return c | (c << s)

    def cofactor(self, t, assignment):
        for name, val in assignment.items():
            t = self.cof(t, name, bool(val))
        return t

    def exists(self, t, names):
        for v in names:
            t = self.cof(t, v, 0) | self.cof(t, v, 1)
        return t

    def forall(self, t, names):
        for v in names:
            t = self.cof(t, v, 0) & self.cof(t, v, 1)
        return t

    def depends(self, t, name):
        return self.cof(t, name, 0) != self.cof(t, name, 1)

    def support(self, t):
        return {v for v in self.names if self.depends(t, v)}

    def popcount(self, t):
        return bin(t).count('1')

    def count(self, t, nvars):
        """Number of models over `nvars` variables (>= |support|)."""
        k = len(self.support(t))
        if nvars < k:
            raise ValueError(nvars)
        # models over all n names, rescaled
        c = self.popcount(t)
        # c = models_over_support * 2^(n-k)
        c >>= (self.n - k)
        return c << (nvars - k)

    def value(self, t, assignment):
        """Value under a total assignment (dict name -> bool)."""
        k = 0
        for i, v in enumerate(self.names):
            if assignment[v]:
                k |= 1 << i
        return bool((t >> k) & 1)

    def assignment(self, k):
        return {v: bool((k >> i) & 1) for i, v in enumerate(self.names)}

    def cube_table(self, partial):
        """Table of the conjunction of literals in `partial`."""
        t = self.full
        for v, b in partial.items():
            m = self.VAR[self.index[v]]
            t &= m if b else (self.full ^ m)
        return t

    def substitute(self, t, sub):
        """Simultaneous substitution: `sub` maps names to tables."""
        # by Shannon expansion over the substituted variables, using the
        # ORIGINAL tables for every replaced variable at once:
        # result(k) = t(k') where k' agrees with k except that each
        # replaced variable v takes the value sub[v](k).
        if not sub:
            return t
        res = 0
        idx = [(self.index[v], g) for v, g in sub.items()]
        for k in range(self.size):
            k2 = k
            for i, g in idx:
                if (g >> k) & 1:
                    k2 |= (1 << i)
                else:
                    k2 &= ~(1 << i)
            if (t >> k2) & 1:
                res |= 1 << k
        return res

    def rename(self, t, ren):
        """Simultaneous renaming: `ren` maps old names to new names."""
        return self.substitute(t, {a: self.var(b) for a, b in ren.items()})

    def lift(self, t, other):
        """Table of the same function in the larger Space `other`."""
        if other is self:
            return t
        pos = [other.index[v] for v in self.names]
        res = 0
        for k in range(other.size):
            j = 0
            for i, p in enumerate(pos):
                if (k >> p) & 1:
                    j |= 1 << i
            if (t >> j) & 1:
                res |= 1 << k
        return res

    def project(self, t, other):
        """Table in the smaller Space `other`; `t` must not depend on the
        dropped names (checked)."""
        for v in self.names:
            if v not in other.index and self.depends(t, v):
                raise ValueError(('depends on dropped name', v))
        pos = [self.index[v] for v in other.names]
        res = 0
        for j in range(other.size):
            k = 0
            for i, p in enumerate(pos):
                if (j >> i) & 1:
                    k |= 1 << p
            if (t >> k) & 1:
                res |= 1 << j
        return res

    def fmt(self, t):
        return format(t, '0{}b'.format(self.size))


BINOPS = {
    'and': 'AND', '/\\': 'AND', '&': 'AND', '&&': 'AND',
    'or': 'OR', '\\/': 'OR', '|': 'OR', '||': 'OR',
    '#': 'XOR', 'xor': 'XOR', '^': 'XOR',
    '=>': 'IMPLIES', '->': 'IMPLIES', 'implies': 'IMPLIES',
    '<=>': 'EQUIV', '<->': 'EQUIV', 'equiv': 'EQUIV',
    'diff': 'DIFF', '-': 'DIFF',
}
UNOPS = ('not', '~', '!')
QUANT_OPS = {'\\A': True, 'forall': True, '\\E': False, 'exists': False}
# this vocabulary is written out from the documentation (doc.md and the
# docstring of `dd._abc.BDD.apply`), not imported from `dd._abc`
ALL_SYMBOLS = set(BINOPS) | set(UNOPS) | set(QUANT_OPS) | {'ite'}


def space_of(bdd):
    """Space over the names currently declared in `bdd` (dd.bdd.BDD)."""
    return Space(bdd.vars)


def raw(bdd):
    """Return the `dd.bdd.BDD` behind `bdd` (identity for dd.bdd)."""
    return getattr(bdd, '_bdd', bdd)


class Denoter:
    """Memoised denotation of nodes of one `dd.bdd.BDD` at one moment.

    Reads `_succ` and `_level_to_var` only. A fresh `Denoter` must be made
    whenever the manager may have changed.
    """

    def __init__(self, bdd, space=None):
        bdd = raw(bdd)
        self.bdd = bdd
        self.sp = space_of(bdd) if space is None else space
        self.memo = {1: self.sp.full}
        self.succ = bdd._succ
        self.l2v = bdd._level_to_var

    def node(self, u):
        """Table of the (positive) node `u`."""
        memo = self.memo
        t = memo.get(u)
        if t is not None:
            return t
        sp = self.sp
        stack = [u]
        succ = self.succ
        while stack:
            x = stack[-1]
            if x in memo:
                stack.pop()
                continue
            i, lo, hi = succ[x]
            alo = abs(lo)
            ahi = abs(hi)
            tlo = memo.get(alo)
            thi = memo.get(ahi)
            if tlo is None:
                stack.append(alo)
            if thi is None:
                stack.append(ahi)
            if tlo is None or thi is None:
                continue
            if lo < 0:
                tlo = sp.full ^ tlo
            if hi < 0:
                thi = sp.full ^ thi
            m = sp.VAR[sp.index[self.l2v[i]]]
            memo[x] = (m & thi) | ((sp.full ^ m) & tlo)
            stack.pop()
        return memo[u]

    def __call__(self, u):
        t = self.node(abs(u))
        return (self.sp.full ^ t) if u < 0 else t


def denote(bdd, u, space=None):
    return Denoter(bdd, space)(u)


def build(bdd, t, space=None):
    """Create in `bdd` (dd.bdd.BDD) the node for table `t`, node by node.

    Follows the manager's current order; uses only `find_or_add`.
    """
    bdd = raw(bdd)
    sp = space_of(bdd) if space is None else space
    n = len(bdd.vars)
    l2v = bdd._level_to_var
    memo = dict()

    def rec(level, t):
        if t == sp.full:
            return 1
        if t == 0:
            return -1
        key = (level, t)
        r = memo.get(key)
        if r is not None:
            return r
        # skip levels the function does not depend on
        while True:
            if level >= n:
                raise AssertionError(('not constant at bottom', t))
            v = l2v[level]
            lo = sp.cof(t, v, 0)
            hi = sp.cof(t, v, 1)
            if lo != hi:
                break
            level += 1
        p = rec(level + 1, lo)
        q = rec(level + 1, hi)
        r = bdd.find_or_add(level, p, q)
        memo[key] = r
        return r
    return rec(0, t)


def random_table(rng, sp, kind=None):
    """A random table with a hostile bias (constants, literals, sparse)."""
    k = rng.random() if kind is None else kind
    if k < 0.04:
        return sp.full
    if k < 0.08:
        return 0
    if k < 0.2 and sp.n:
        t = sp.VAR[rng.randrange(sp.n)]
        return t if rng.random() < 0.5 else sp.full ^ t
    if k < 0.35 and sp.n >= 2:
        # function of two variables
        a, b = rng.sample(range(sp.n), 2)
        f = rng.randrange(16)
        t = 0
        for k2 in range(sp.size):
            bit = ((k2 >> a) & 1) | (((k2 >> b) & 1) << 1)
            if (f >> bit) & 1:
                t |= 1 << k2
        return t
    if k < 0.45:
        # sparse
        t = 0
        for _ in range(rng.randint(1, 3)):
            t |= 1 << rng.randrange(sp.size)
        return t if rng.random() < 0.5 else sp.full ^ t
    return rng.getrandbits(sp.size)
