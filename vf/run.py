"""Entry point: `python -m vf.run <ID> <quick|thorough> [--seed N]`.

Parent mode plans shards and runs each in a subprocess (own
PYTHONHASHSEED); child mode (`--shard`) executes one shard against the
working tree at $VERIF_REPO and writes a JSON result.
"""
import argparse
import importlib
import json
import os
import sys
import time
import traceback

from vf import common


def main(argv=None):
    ap = argparse.ArgumentParser()
    ap.add_argument('prop')
    ap.add_argument('tier', nargs='?', default=None)
    ap.add_argument('--seed', type=int, default=None)
    ap.add_argument('--shard', default=None)
    ap.add_argument('--out', default=None)
    ap.add_argument('--replay', default=None)
    a = ap.parse_args(argv)
    prop = a.prop.upper()
    tier = a.tier or os.environ.get('VERIF_TIER') or 'quick'
    if tier not in ('quick', 'thorough'):
        ap.error(f'unknown tier {tier}')
    seed = a.seed
    if seed is None:
        seed = int(os.environ.get('VERIF_SEED', '0') or 0)
    mod = importlib.import_module(f'vf.props.{prop.lower()}')
    if a.shard is not None:
        return child(mod, prop, tier, seed, json.loads(a.shard), a.out)
    t0 = time.time()
    if a.replay is not None:
        with open(a.replay) as f:
            rp = json.load(f)
        tier, seed = rp['tier'], rp['seed']
        specs = [rp['shard']]
        meta = mod.plan(tier, seed)[1]
        timeout = meta.get('timeout', 3600)
        results = common.run_shards(prop, tier, seed, specs, timeout)
        for r in results:
            for v in r.get('violations', []):
                print(json.dumps(v, indent=1)[:4000])
            if 'failed' in r:
                print(r['failed'], r.get('output'))
        bad = any(r.get('violations') for r in results)
        print('REPLAY: violation reproduced' if bad
              else 'REPLAY: no violation')
        return 1 if bad else 0
    specs, meta = mod.plan(tier, seed)
    timeout = meta.get('timeout', 900 if tier == 'quick' else 3600)
    results = common.run_shards(prop, tier, seed, specs, timeout)
    return common.merge_and_report(prop, tier, seed, results, meta, t0)


def child(mod, prop, tier, seed, spec, out):
    common.setup_repo_path()
    common.EVENTS.install()
    sys.setrecursionlimit(20000)
    # Finalisers of dd.autoref.Function objects must not run in the
    # middle of a ledger comparison: the automatic cyclic collector is
    # off in shard processes; the drivers collect explicitly at
    # quiescent points.
    import gc
    gc.disable()
    ctx = common.Ctx(prop, tier, seed, spec)
    rc = 0
    try:
        with common.scratch_dir():
            mod.run_shard(ctx, spec)
    except common.Inconclusive as e:
        ctx.count('inconclusive')
        print('INCONCLUSIVE', e)
        rc = 3
    except Exception:
        # a harness failure outside any guarded case
        traceback.print_exc()
        rc = 4
    res = ctx.result()
    out = os.path.abspath(out)
    with open(out, 'w') as f:
        json.dump(res, f)
    return rc


if __name__ == '__main__':
    sys.exit(main())
