"""Monitors M1-M10 (DESIGN.md section 2.2): pure observers of a manager.

Every function raises `Violation(None, symptom, detail)`; the caller fills
in the call site (the operation that was executed last).
They read the raw dictionaries; none of them calls `assert_consistent`
or any algorithm of the library.
"""
import collections

from vf.common import Violation
from vf.oracle import Denoter, raw


def _v(symptom, detail):
    return Violation(None, symptom, detail)


# ------------------------------------------------------------------ M1
def check_structure(bdd):
    bdd = raw(bdd)
    succ, pred, ref = bdd._succ, bdd._pred, bdd._ref
    n = len(bdd.vars)
    if 1 not in succ:
        raise _v('M1-terminal-missing', dict(succ=len(succ)))
    if tuple(succ[1]) != (n, None, None):
        raise _v('M1-terminal-level', (succ[1], n))
    seen = dict()
    for u, t in succ.items():
        if not isinstance(u, int) or isinstance(u, bool) or u < 1:
            raise _v('M1-bad-node-id', u)
        if u == 1:
            continue
        try:
            i, lo, hi = t
        except (TypeError, ValueError):
            raise _v('M1-bad-triple', (u, t))
        if not isinstance(i, int) or not (0 <= i < n):
            raise _v('M1-level-out-of-range', (u, t, n))
        if not isinstance(lo, int) or not isinstance(hi, int) or not lo or not hi:
            raise _v('M1-bad-children', (u, t))
        if hi < 0:
            raise _v('M1-complemented-high-edge', (u, t))
        if lo == hi:
            raise _v('M1-redundant-node', (u, t))
        if abs(lo) not in succ or hi not in succ:
            raise _v('M1-dangling-child', (u, t))
        if not (succ[abs(lo)][0] > i and succ[hi][0] > i):
            raise _v('M1-not-ordered', (u, t, succ[abs(lo)], succ[hi]))
        if t in seen:
            raise _v('M1-duplicate-node', (u, seen[t], t))
        seen[t] = u
    # unique table is the inverse of the node table
    if len(pred) != len(succ):
        raise _v('M1-pred-size', (len(pred), len(succ)))
    for u, t in succ.items():
        if pred.get(t) != u:
            raise _v('M1-pred-not-inverse', (u, t, pred.get(t)))
    # counts exist for exactly the stored nodes, and are not negative
    if set(ref) != set(succ):
        raise _v('M1-ref-keys', sorted(set(ref) ^ set(succ))[:10])
    for u, c in ref.items():
        if not isinstance(c, int) or c < 0:
            raise _v('M1-negative-count', (u, c))
    mf = bdd._min_free
    if mf in succ or mf < 2:
        raise _v('M1-min-free-used', mf)


# ------------------------------------------------------------------ M2
def check_order_maps(bdd):
    """`vars`, `_level_to_var`, `var_levels`, `var_at_level`,
    `level_of_var` describe one bijection names <-> 0..n-1."""
    pub = bdd
    bdd = raw(bdd)
    vrs = bdd.vars
    n = len(vrs)
    if pub is not bdd and pub.vars is not bdd.vars:
        if dict(pub.vars) != dict(bdd.vars):
            raise _v('M2-wrapper-vars-differ', (dict(pub.vars), dict(vrs)))
    levels = sorted(vrs.values())
    if levels != list(range(n)):
        raise _v('M2-levels-not-0..n-1', dict(vrs))
    l2v = bdd._level_to_var
    if len(l2v) != n:
        raise _v('M2-inverse-size', (dict(vrs), dict(l2v)))
    for v, i in vrs.items():
        if l2v.get(i) != v:
            raise _v('M2-inverse-mismatch', (dict(vrs), dict(l2v)))
    vl = pub.var_levels
    if dict(vl) != dict(vrs):
        raise _v('M2-var_levels', (dict(vl), dict(vrs)))
    for v, i in vrs.items():
        if pub.var_at_level(i) != v:
            raise _v('M2-var_at_level', (i, pub.var_at_level(i), v))
        if pub.level_of_var(v) != i:
            raise _v('M2-level_of_var', (v, pub.level_of_var(v), i))


# ------------------------------------------------------------------ M3
def check_canonicity(bdd, den=None):
    """Stored nodes denote pairwise different, non-constant functions,
    also up to complement."""
    bdd = raw(bdd)
    den = den or Denoter(bdd)
    full = den.sp.full
    seen = dict()
    for u in bdd._succ:
        if u == 1:
            continue
        t = den.node(u)
        if t == 0 or t == full:
            raise _v('M3-constant-node', (u, bdd._succ[u]))
        k = t if t < (full ^ t) else (full ^ t)
        if k in seen:
            raise _v('M3-two-nodes-same-function',
                     (u, bdd._succ[u], seen[k], bdd._succ[seen[k]]))
        seen[k] = u
    return den


# ------------------------------------------------------------------ M4
def indegree(bdd):
    bdd = raw(bdd)
    deg = collections.Counter()
    for u, (i, lo, hi) in bdd._succ.items():
        if lo is None:
            continue
        deg[abs(lo)] += 1
        deg[abs(hi)] += 1
    return deg


def check_ledger(bdd, external):
    """`_ref[u] == stored in-edges(u) + external(u)` (+1 for the
    terminal's own reference)."""
    bdd = raw(bdd)
    deg = indegree(bdd)
    for u, c in bdd._ref.items():
        want = deg.get(u, 0) + external.get(u, 0) + (1 if u == 1 else 0)
        if c != want:
            raise _v('M4-count-mismatch',
                     dict(node=u, count=c, in_edges=deg.get(u, 0),
                          external=external.get(u, 0),
                          triple=bdd._succ.get(u)))
    for u, c in external.items():
        if c and u not in bdd._succ:
            raise _v('M4-held-node-freed', dict(node=u, external=c))


def reachable(bdd, roots):
    bdd = raw(bdd)
    succ = bdd._succ
    seen = {1}
    stack = [abs(r) for r in roots]
    while stack:
        u = stack.pop()
        if u in seen:
            continue
        seen.add(u)
        i, lo, hi = succ[u]
        stack.append(abs(lo))
        stack.append(abs(hi))
    return seen


def check_exact_collection(bdd, external):
    """After a full collection exactly the nodes reachable from
    externally referenced nodes (and the terminal) remain."""
    bdd = raw(bdd)
    roots = [u for u, c in external.items() if c > 0]
    for u in roots:
        if u not in bdd._succ:
            raise _v('M4-held-node-freed', dict(node=u))
    want = reachable(bdd, roots)
    have = set(bdd._succ)
    if want != have:
        raise _v('GC-not-exact', dict(
            extra=sorted(have - want)[:10], missing=sorted(want - have)[:10]))


# ------------------------------------------------------------------ M5
UNREADABLE_TABLES = [0]


def _readable(tab):
    """The computed table maps `(g, u, v)` to `w`, all signed ints. How
    the library stores its cache is its own business: another format is
    not judged (the reach counters of the checks then stay at zero, which
    makes the run inconclusive, not a violation)."""
    for k, w in tab.items():
        ok = (isinstance(k, tuple) and len(k) == 3 and
              all(isinstance(x, int) for x in k) and isinstance(w, int))
        if not ok:
            UNREADABLE_TABLES[0] += 1
        return ok
    return True


def entries(tab):
    """Number of entries of a computed table that the monitors read."""
    return len(tab) if _readable(tab) else 0


def check_ite_table(bdd, den=None, semantic=True):
    bdd = raw(bdd)
    tab = bdd._ite_table
    if not tab:
        return 0
    succ = bdd._succ
    den = den or Denoter(bdd)
    sp = den.sp
    if not _readable(tab):
        return 0
    for (g, u, v), w in tab.items():
        for x in (g, u, v, w):
            if abs(x) not in succ:
                raise _v('M5-cache-entry-mentions-freed-node',
                         ((g, u, v), w, x))
        if semantic:
            if den(w) != sp.ITE(den(g), den(u), den(v)):
                raise _v('M5-cache-entry-wrong', ((g, u, v), w))
    return len(tab)


class IteTableWatch:
    """Temporal version of M5 that does not depend on `ite` being right:
    an entry that survives must keep the denotations it had when it was
    first seen (a node number re-used for another function under a
    surviving entry is a stale result)."""

    def __init__(self):
        self.first = dict()
        self.table = None

    def check(self, bdd, den):
        bdd = raw(bdd)
        tab = bdd._ite_table
        if tab is not self.table:
            # the library resets its cache by installing a new dict;
            # everything in a new dict was computed after the reset
            self.first = dict()
            self.table = tab
        succ = bdd._succ
        cur = dict()
        if not _readable(tab):
            return 0
        for k, w in tab.items():
            g, u, v = k
            for x in (g, u, v, w):
                if abs(x) not in succ:
                    raise _v('M5-cache-entry-mentions-freed-node', (k, w, x))
            sig = (den(g), den(u), den(v), den(w), den.sp.names)
            old = self.first.get((k, w))
            if old is not None and old != sig:
                raise _v('M5-stale-cache-entry-after-reuse', (k, w))
            cur[(k, w)] = sig
        self.first = cur
        return len(tab)


# ------------------------------------------------------------------ M7
def check_held(bdd, pool, den=None):
    """Every held reference exists and denotes its recorded table."""
    bdd = raw(bdd)
    den = den or Denoter(bdd)
    for ref, tt in pool:
        if abs(ref) not in bdd._succ:
            raise _v('M7-held-reference-freed', ref)
        if den(ref) != tt:
            raise _v('M7-held-reference-changed-meaning',
                     dict(ref=ref, now=den.sp.fmt(den(ref)),
                          was=den.sp.fmt(tt)))
    return den


# ------------------------------------------------------------------ M10
class SwapWatch:
    """Post-condition on `BDD.swap` when given an incremental level
    index: the index equals a fresh recomputation."""

    def __init__(self):
        self.calls = 0
        self.with_index = 0
        self.bad = []
        self._orig = None

    def install(self):
        import dd.bdd as _b
        watch = self
        orig = _b.BDD.swap
        self._orig = orig

        def swap(self, x, y, all_levels=None, *args, **kw):
            r = orig(self, x, y, all_levels, *args, **kw)
            watch.calls += 1
            if all_levels is not None:
                watch.with_index += 1
                fresh = self._levels()
                mine = {k: set(v) for k, v in all_levels.items()}
                if mine != fresh and len(watch.bad) < 5:
                    watch.bad.append((x, y, _diff(mine, fresh)))
            return r
        _b.BDD.swap = swap

    def uninstall(self):
        import dd.bdd as _b
        if self._orig is not None:
            _b.BDD.swap = self._orig
            self._orig = None

    def check(self):
        if self.bad:
            bad = self.bad[:]
            del self.bad[:]
            raise _v('M10-swap-level-index-wrong', bad)


def _diff(a, b):
    out = dict()
    for k in set(a) | set(b):
        if a.get(k) != b.get(k):
            out[k] = (sorted(a.get(k, ())), sorted(b.get(k, ())))
    return out


# ------------------------------------------------------------------ M6
class HandleRegistry:
    """Registry of live `dd.autoref.Function` objects, maintained by
    wrappers on `Function.__init__` / `Function.__del__`."""

    def __init__(self):
        self.live = collections.Counter()   # (id(manager), node) -> n
        self.created = 0
        self.deleted = 0
        self.ids = set()
        self.finalised_unconstructed = 0
        self._orig = None

    def install(self):
        import dd.autoref as _a
        reg = self
        F = _a.Function
        oinit, odel = F.__init__, F.__del__
        self._orig = (oinit, odel)

        def __init__(self, node, bdd, *args, **kw):
            oinit(self, node, bdd, *args, **kw)
            # only objects whose constructor completed hold a reference
            reg.ids.add(id(self))
            reg.live[(id(self.manager), abs(node))] += 1
            reg.created += 1

        def __del__(self):
            node = getattr(self, 'node', None)
            if id(self) in reg.ids:
                reg.ids.discard(id(self))
                if node is not None:
                    key = (id(self.manager), abs(node))
                    reg.live[key] -= 1
                    if not reg.live[key]:
                        del reg.live[key]
                    reg.deleted += 1
            else:
                # the finaliser of an object whose constructor raised:
                # whatever it releases was never taken (the ledger
                # comparison shows it)
                reg.finalised_unconstructed += 1
            odel(self)
        F.__init__ = __init__
        F.__del__ = __del__

    def uninstall(self):
        import dd.autoref as _a
        if self._orig:
            _a.Function.__init__, _a.Function.__del__ = self._orig
            self._orig = None

    def external(self, manager):
        m = id(raw(manager))
        return {node: c for (mid, node), c in self.live.items()
                if mid == m and c}


# ------------------------------------------------------------------ all
def check_all(bdd, external=None, pool=None, semantic_cache=True,
              watch=None, canon=True):
    """Run M1-M5 (+M7) at a quiescent point; returns the Denoter used."""
    check_structure(bdd)
    check_order_maps(bdd)
    den = Denoter(bdd)
    if canon:
        check_canonicity(bdd, den)
    if external is not None:
        check_ledger(bdd, external)
    if watch is not None:
        watch.check(bdd, den)
    else:
        check_ite_table(bdd, den, semantic=semantic_cache)
    if pool is not None:
        check_held(bdd, pool, den)
    return den
