"""Build a Cython wrapper of the working tree against an instrumented
stand-in ("fake") of its C library. Used by C19.

`build(name)` cythonizes $VERIF_REPO/dd/<name>.pyx and compiles it with
the headers under /verif/fake/<lib>/ into a private temporary package
directory `<tmp>/dd/` that also contains symlinks to the pure-Python
modules of the working tree, so that `import dd.<name>` loads the freshly
built extension and everything else from the tree under test.
"""
import os
import shutil
import subprocess
import sys
import sysconfig
import tempfile

from vf import common

FAKE = dict(cudd='cudd', sylvan='sylvan', buddy='buddy')


def build(name, workdir=None):
    repo = common.REPO
    src = os.path.join(repo, 'dd', f'{name}.pyx')
    if not os.path.exists(src):
        raise common.Inconclusive(f'{src} does not exist')
    tmp = workdir or tempfile.mkdtemp(prefix=f'vfc_{name}_')
    pkg = os.path.join(tmp, 'dd')
    os.makedirs(pkg, exist_ok=True)
    # the rest of the package comes from the tree under test
    for f in os.listdir(os.path.join(repo, 'dd')):
        if f.endswith('.py') or f.endswith('.pxd'):
            dst = os.path.join(pkg, f)
            if not os.path.exists(dst):
                os.symlink(os.path.join(repo, 'dd', f), dst)
    shutil.copy(src, os.path.join(pkg, f'{name}.pyx'))
    fake = os.path.join(common.VERIF, 'fake', FAKE[name])
    cfile = os.path.join(pkg, f'{name}.c')
    r = subprocess.run(
        [common.PY, '-m', 'cython', '-3', '-I', pkg, '-I', tmp,
         os.path.join(pkg, f'{name}.pyx'), '-o', cfile],
        capture_output=True, text=True, cwd=tmp)
    if r.returncode:
        raise BuildError('cython failed:\n' + r.stdout[-3000:] +
                         r.stderr[-3000:])
    inc = sysconfig.get_paths()['include']
    ext = sysconfig.get_config_var('EXT_SUFFIX')
    so = os.path.join(pkg, f'{name}{ext}')
    r = subprocess.run(
        ['gcc', '-shared', '-fPIC', '-O0', '-g0', '-w',
         '-fno-strict-aliasing', f'-I{fake}', f'-I{inc}', f'-I{pkg}',
         cfile, '-o', so, '-lm'],
        capture_output=True, text=True, cwd=tmp)
    if r.returncode:
        raise BuildError('gcc failed:\n' + r.stderr[-4000:])
    return tmp, so


class BuildError(Exception):
    pass


def main():
    common.REPO = os.environ.get('VERIF_REPO', '/repo')
    tmp, so = build(sys.argv[1])
    print(tmp, so)


if __name__ == '__main__':
    main()
