"""C16 - a DDDMP file loads to the functions it describes."""
import os

from vf import monitors
from vf.common import Violation
from vf.oracle import Space, Denoter, random_table

RULE = (
    'generated text-mode DDDMP files: 1-4 root functions over <= 5 '
    'support variables among up to 8 declared ones; shared reduced '
    'diagram with complemented else edges written by an own 30-line '
    'builder; node ids assigned by a random children-before-parents '
    'numbering (terminal = 1), or bottom-up by level; permutation ids '
    'with and without gaps (nvars > nsuppvars); varinfo 0 (ids), 1 '
    '(permids), 3 (names); with and without .orderedvarnames; regular, '
    'complemented and constant roots. Oracle: the set of tables of '
    '`bdd.roots` (read from the returned node table by variable name) == '
    'the set of tables obtained by evaluating the file\'s own node list '
    'from each root id; returned manager M1-M3. Non-trivial: a '
    'non-constant root whose numbering is not bottom-up by level; '
    'distinct by hash of the file text.')


def plan(tier, seed):
    specs = []
    n = 128 if tier == 'thorough' else 12
    for k in range(n):
        specs.append(dict(kind='files', sub=k,
                          count=6000 if tier == 'thorough' else 300,
                          hashseed=k))
    for k in range(3 if tier == 'quick' else 16):
        specs.append(dict(kind='large', sub=k,
                          pairs=(7, 9, 11) if tier == 'quick'
                          else (8, 10, 11, 12),
                          count=4 if tier == 'quick' else 12, hashseed=k))
    meta = dict(
        rule=RULE,
        require=['large_files_loaded', 'files_loaded', 'roots_checked', 'varinfo_0', 'varinfo_1',
                 'varinfo_3', 'with_orderedvarnames',
                 'without_orderedvarnames', 'permid_gaps',
                 'numbering_not_by_level', 'complemented_roots',
                 'formulas_parsed_between_loads'],
        assumptions=['terminal node has id 1; then-edges are regular, '
                     'else-edges may be complemented (CUDD convention)',
                     '.orderedvarnames lists the variables by level; '
                     'suppvarnames/ids/permids are parallel lists'],
        timeout=1500 if tier == 'quick' else 5400)
    return specs, meta


class Diagram:
    """Own reduced ordered diagram with complemented else edges."""

    def __init__(self, sp, order):
        self.sp = sp
        self.order = order          # names, top first
        self.unique = dict()        # (var, hi, lo) -> id
        self.nodes = dict()         # id -> (var, hi, lo)
        self.memo = dict()
        self.next = 2

    def mk(self, t, i=0):
        sp = self.sp
        if t == sp.full:
            return 1
        if t == 0:
            return -1
        key = t
        if key in self.memo:
            return self.memo[key]
        while True:
            v = self.order[i]
            lo, hi = sp.cof(t, v, 0), sp.cof(t, v, 1)
            if lo != hi:
                break
            i += 1
        h = self.mk(hi, i + 1)
        l = self.mk(lo, i + 1)
        sign = 1
        if h < 0:
            h, l, sign = -h, -l, -1
        k = (v, h, l)
        u = self.unique.get(k)
        if u is None:
            u = self.next
            self.next += 1
            self.unique[k] = u
            self.nodes[u] = k
        r = sign * u
        self.memo[key] = r
        return r


def make_file(rng, path):
    """Write a random DDDMP file; return (text info, expected tables by
    root position, Space)."""
    nsupp = rng.randint(1, 5)
    nvars = nsupp + rng.choice((0, 0, 1, 3))
    allnames = [f'v{i}' for i in range(nvars)]
    if rng.random() < 0.4:
        # every character that the format's names may contain
        pool = ["x'", "y'", 'a.b', 'c@1', '_u', "p_1'", 'V0', 'w.2@',
                "z''", 'x']
        allnames = rng.sample(pool, nvars)
    rng.shuffle(allnames)                  # allnames[level] = name
    levels = sorted(rng.sample(range(nvars), nsupp))
    supp_by_level = [allnames[l] for l in levels]
    sp = Space(supp_by_level)
    # roots
    k = rng.randint(1, 4)
    tabs = []
    for _ in range(k):
        r = rng.random()
        if r < 0.07:
            t = rng.choice((0, sp.full))
        elif r < 0.2 and tabs:
            t = sp.NOT(rng.choice(tabs))
        else:
            t = random_table(rng, sp, kind=0.25 + 0.75 * rng.random())
        tabs.append(t)
    d = Diagram(sp, supp_by_level)
    roots = [d.mk(t) for t in tabs]
    # keep only reachable nodes (all are)
    # numbering
    ids = {1: 1}
    by_level = rng.random() < 0.2
    remaining = set(d.nodes)
    lvl = {v: i for i, v in enumerate(supp_by_level)}
    nxt = 2
    if by_level:
        for u in sorted(remaining, key=lambda u: (-lvl[d.nodes[u][0]],
                                                  rng.random())):
            ids[u] = nxt
            nxt += 1
    else:
        while remaining:
            ready = [u for u in remaining
                     if abs(d.nodes[u][1]) in ids and abs(d.nodes[u][2]) in ids]
            u = rng.choice(ready)
            ids[u] = nxt
            nxt += 1
            remaining.discard(u)
    # is the numbering bottom-up by level ?
    seq = sorted(d.nodes, key=lambda u: ids[u])
    lv_seq = [lvl[d.nodes[u][0]] for u in seq]
    not_by_level = any(a < b for a, b in zip(lv_seq, lv_seq[1:]))
    # support variables listed by index (a random index per variable)
    var_index = list(range(nvars))
    rng.shuffle(var_index)                  # var_index[level] = CUDD index
    supp = sorted(zip((var_index[l] for l in levels), levels,
                      supp_by_level))      # by index
    s_ids = [i for i, _, _ in supp]
    s_perm = [l for _, l, _ in supp]
    s_names = [n for _, _, n in supp]
    id_of = {n: i for i, _, n in supp}
    perm_of = {n: l for _, l, n in supp}
    ordered = rng.random() < 0.5
    varinfo = rng.choice((0, 1, 3) if ordered else (0, 1))
    lines = ['.ver DDDMP-2.0', '.mode A', f'.varinfo {varinfo}']
    if rng.random() < 0.5:
        lines.append('.dd gen')
    lines += [f'.nnodes {len(d.nodes) + 1}', f'.nvars {nvars}',
              f'.nsuppvars {nsupp}']
    if ordered:
        lines.append('.orderedvarnames ' + ' '.join(allnames))
    lines += ['.suppvarnames ' + ' '.join(s_names),
              '.ids ' + ' '.join(map(str, s_ids)),
              '.permids ' + ' '.join(map(str, s_perm)),
              '.auxids ' + ' '.join(map(str, s_ids)),
              f'.nroots {k}',
              '.rootids ' + ' '.join(
                  str((1 if r > 0 else -1) * ids[abs(r)]) for r in roots),
              '.nodes', '1 T 1 0 0']
    for u in seq:
        v, h, l = d.nodes[u]
        info = {0: id_of[v], 1: perm_of[v], 3: v}[varinfo]
        lo = (1 if l > 0 else -1) * ids[abs(l)]
        lines.append(f'{ids[u]} {info} {id_of[v]} {ids[h]} {lo}')
    lines.append('.end')
    text = '\n'.join(lines) + '\n'
    with open(path, 'w') as f:
        f.write(text)
    meta = dict(varinfo=varinfo, ordered=ordered, nvars=nvars, nsupp=nsupp,
                gaps=(levels != list(range(nsupp))) or nvars > nsupp,
                not_by_level=not_by_level and bool(d.nodes),
                declared=allnames if ordered else supp_by_level)
    return text, tabs, sp, meta


def eval_file(text):
    """Evaluate the file's own node list: returns ([root tables], names)
    using only the text (own reader)."""
    head = dict()
    body = []
    in_nodes = False
    for line in text.splitlines():
        if line.startswith('.nodes'):
            in_nodes = True
            continue
        if line.startswith('.end'):
            break
        if in_nodes:
            body.append(line.split(' '))
        elif line.startswith('.'):
            k, _, rest = line.partition(' ')
            head[k] = rest.split()
    names = head['.suppvarnames']
    varinfo = int(head['.varinfo'][0])
    key = {0: head['.ids'], 1: head['.permids'], 3: names}[varinfo]
    name_of = dict(zip(key, names))
    sp = Space(names)
    nodes = dict()
    for u, info, _idx, hi, lo in body:
        nodes[int(u)] = (info, int(hi), int(lo))
    memo = dict()

    def tab(ref):
        u = abs(ref)
        if u not in memo:
            info, hi, lo = nodes[u]
            if info == 'T':
                memo[u] = sp.full
            else:
                m = sp.var(name_of[info])
                memo[u] = (m & tab(hi)) | ((sp.full ^ m) & tab(lo))
        return (sp.full ^ memo[u]) if ref < 0 else memo[u]
    return [tab(int(r)) for r in head['.rootids']], sp


def files(ctx, spec):
    import dd.dddmp as _d
    rng = ctx.rng('files', spec['sub'])
    path = f'f{os.getpid()}.dddmp'
    bad = 0
    # the formula parser of the package (another PLY lexer and parser, built
    # at the first `add_expr` of the process) comes into being before the
    # first load or between two loads, and is used again now and then
    first_formula = 0 if spec['sub'] % 3 == 0 else rng.randint(1, 4)
    for it in range(spec['count']):
        if it == first_formula or (it > first_formula and
                                   rng.random() < 0.05):
            _other_parser(ctx, rng)
        text, tabs, sp, meta = make_file(rng, path)
        # the generator and the independent reader of the text agree
        rt, sp2 = eval_file(text)
        if [sp2.lift(t, sp) if sp2.names != sp.names else t
                for t in rt] != tabs:
            raise RuntimeError('harness: file reader disagrees with the '
                               'generator')
        info = dict(meta, file=text if len(text) < 900 else text[:900])
        ok, _ = ctx.guard('dddmp.load', one, ctx, _d, path, tabs, sp, meta,
                          info, case=info)
        ctx.case(any(0 < t < sp.full for t in tabs) and meta['not_by_level'],
                 text)
        ctx.counters[f'varinfo_{meta["varinfo"]}'] += 1
        ctx.counters['with_orderedvarnames' if meta['ordered']
                     else 'without_orderedvarnames'] += 1
        ctx.counters['permid_gaps'] += bool(meta['gaps'])
        ctx.counters['numbering_not_by_level'] += bool(meta['not_by_level'])
        if it == 0:
            ctx.sample(dict(kind='file', text=text))
        if not ok:
            bad += 1
            if bad > 4:
                break
    if os.path.exists(path):
        os.remove(path)


def _other_parser(ctx, rng):
    import dd.bdd as _b
    import dd.autoref as _a
    m = _a.BDD() if rng.random() < 0.5 else _b.BDD()
    m.declare('p', 'q', 'r')
    u = m.add_expr(rng.choice((r'p /\ ~ q', r'\E p: (p => r) | q',
                               r'ite(p, q, ~ r)')))
    m.to_expr(u)
    del u
    ctx.counters['formulas_parsed_between_loads'] += 1


def one(ctx, _d, path, tabs, sp, meta, info):
    try:
        bdd = _d.load(path)
    except Exception as e:
        raise Violation('dddmp.load', 'valid-file-rejected:' +
                        type(e).__name__, dict(info, exc=repr(e)[:300]))
    ctx.counters['files_loaded'] += 1
    monitors.check_structure(bdd)
    monitors.check_order_maps(bdd)
    monitors.check_canonicity(bdd)
    if set(bdd.vars) != set(meta['declared']):
        raise Violation('dddmp.load', 'declared-variables-differ',
                        dict(info, got=sorted(bdd.vars)))
    allsp = Space(bdd.vars)
    den = Denoter(bdd, allsp)
    want = {sp.lift(t, allsp) for t in tabs}
    got = set()
    for r in bdd.roots:
        if not isinstance(r, int) or abs(r) not in bdd._succ:
            raise Violation('dddmp.load', 'root-not-a-node-of-the-manager',
                            dict(info, root=repr(r)))
        got.add(den(r))
        ctx.counters['roots_checked'] += 1
        ctx.counters['complemented_roots'] += r < 0
    if got != want:
        raise Violation('dddmp.load', 'roots-denote-other-functions',
                        dict(info, got=sorted(allsp.fmt(t) for t in got),
                             want=sorted(allsp.fmt(t) for t in want)))
    # the relative order of the variables is the file's
    lv = bdd.vars
    names = meta['declared']
    if sorted(names, key=lv.get) != list(names):
        raise Violation('dddmp.load', 'variable-order-differs',
                        dict(info, got=dict(lv)))


def large(ctx, spec):
    """Files with thousands of nodes (hundreds of kilobytes): the
    comparator /\\_i (x_i <=> y_i) under the order x0 < x1 < .. < y0 < ..,
    built by an own construction (3 * 2**k nodes), written with random
    conventions; judged on sampled assignments."""
    import dd.dddmp as _d
    from vf import big
    rng = ctx.rng('large', spec['sub'])
    path = f'L{os.getpid()}.dddmp'
    for it in range(spec['count']):
        k = rng.choice(spec['pairs'])
        extra = rng.randint(0, 2)              # unsupported variables
        xs = [f'x{i}' for i in range(k)]
        ys = [f'y{i}' for i in range(k)]
        supp = xs + ys                          # by level
        allnames = supp[:]
        for j in range(extra):
            allnames.insert(rng.randrange(len(allnames) + 1), f'u{j}')
        level = {v: i for i, v in enumerate(allnames)}
        # own diagram: nodes (var, then, else), then-edge regular
        unique, nodes = dict(), dict()

        def node(v, h, l):
            if h == l:
                return h
            sign = 1
            if h < 0:
                h, l, sign = -h, -l, -1
            key = (v, h, l)
            u = unique.get(key)
            if u is None:
                u = len(nodes) + 2
                unique[key] = u
                nodes[u] = key
            return sign * u
        memo = dict()

        def Y(i, bits):
            # y_i == bits[i] and the rest
            if i == k:
                return 1
            key = ('y', i, bits[i:])
            if key not in memo:
                rest = Y(i + 1, bits)
                memo[key] = node(ys[i], rest, -1) if bits[i] \
                    else node(ys[i], -1, rest)
            return memo[key]

        def X(i, bits):
            if i == k:
                return Y(0, bits)
            return node(xs[i], X(i + 1, bits + (True,)),
                        X(i + 1, bits + (False,)))
        root = X(0, ())
        neg = rng.random() < 0.3
        # numbering: children before parents (creation order is one),
        # shuffled within what that allows
        ids = {1: 1}
        order_nodes = sorted(nodes)             # creation order
        if rng.random() < 0.5:
            # by level from the bottom, random within a level
            order_nodes = sorted(nodes, key=lambda u: (
                -level[nodes[u][0]], rng.random()))
        for n_, u in enumerate(order_nodes):
            ids[u] = n_ + 2
        nvars = len(allnames)
        var_index = list(range(nvars))
        rng.shuffle(var_index)                  # level -> CUDD index
        sup = sorted((var_index[level[v]], level[v], v) for v in supp)
        id_of = {v: i for i, _, v in sup}
        perm_of = {v: l for _, l, v in sup}
        ordered = rng.random() < 0.5
        varinfo = rng.choice((0, 1, 3) if ordered else (0, 1))
        lines = ['.ver DDDMP-2.0', '.mode A', f'.varinfo {varinfo}',
                 f'.nnodes {len(nodes) + 1}', f'.nvars {nvars}',
                 f'.nsuppvars {len(supp)}']
        if ordered:
            lines.append('.orderedvarnames ' + ' '.join(allnames))
        lines += ['.suppvarnames ' + ' '.join(v for _, _, v in sup),
                  '.ids ' + ' '.join(str(i) for i, _, _ in sup),
                  '.permids ' + ' '.join(str(l) for _, l, _ in sup),
                  '.auxids ' + ' '.join(str(i) for i, _, _ in sup),
                  '.nroots 1',
                  f'.rootids {(-1 if (root < 0) != neg else 1) * ids[abs(root)]}',
                  '.nodes', '1 T 1 0 0']
        for u in order_nodes:
            v, h, l = nodes[u]
            info = {0: id_of[v], 1: perm_of[v], 3: v}[varinfo]
            lo = (1 if l > 0 else -1) * ids[abs(l)]
            lines.append(f'{ids[u]} {info} {id_of[v]} {ids[h]} {lo}')
        lines.append('.end')
        text = '\n'.join(lines) + '\n'
        with open(path, 'w') as f:
            f.write(text)
        info = dict(pairs=k, nodes=len(nodes), bytes=len(text),
                    varinfo=varinfo, ordered=ordered, extra=extra)
        try:
            bdd = _d.load(path)
        except Exception as e:
            ctx.violation('dddmp.load', 'valid-file-rejected:' +
                          type(e).__name__, dict(info, exc=repr(e)[:300]))
            continue
        finally:
            if os.path.exists(path):
                os.remove(path)
        ctx.counters['large_files_loaded'] += 1
        ctx.note('file_kilobytes_tens', len(text) // 10240)
        ok, _ = ctx.guard('dddmp.load', _judge_large, ctx, bdd, big, rng, k,
                          xs, ys, neg, len(nodes), info, case=info)
        ctx.case(True, 'large', k, varinfo, ordered, it)
        del bdd


def _judge_large(ctx, bdd, big, rng, k, xs, ys, neg, nnodes, info):
    monitors.check_structure(bdd)
    monitors.check_order_maps(bdd)
    if len(bdd.roots) != 1:
        raise Violation('dddmp.load', 'number-of-roots-differs',
                        dict(info, got=len(bdd.roots)))
    (r,) = bdd.roots
    if len(monitors.reachable(bdd, [r])) != nnodes + 1:
        raise Violation('dddmp.load', 'number-of-nodes-differs',
                        dict(info, got=len(monitors.reachable(bdd, [r]))))
    for _ in range(200):
        a = {v: rng.random() < 0.5 for v in bdd.vars}
        p = rng.random()
        if p < 0.7:
            for i in range(k):
                a[ys[i]] = a[xs[i]]
            if p < 0.3:
                a[ys[rng.randrange(k)]] ^= True
        want = all(a[xs[i]] == a[ys[i]] for i in range(k)) != neg
        if big.eval_bdd(bdd, r, a) != want:
            raise Violation('dddmp.load', 'roots-denote-other-functions',
                            dict(info, want=want))
    ctx.counters['roots_checked'] += 1


def run_shard(ctx, spec):
    fn = dict(files=files, large=large)[spec['kind']]
    ctx.guard(spec['kind'], fn, ctx, spec, case=spec)
