"""C18 - structural views (low/high, descendants, sizes, graph exports)
are faithful."""
import os
import re

from vf import monitors
from vf.common import Violation
from vf.oracle import Space, Denoter
from vf.sweep import AllFunctions, orders

RULE = (
    'all functions of <=3 variables as single roots and sampled sets of '
    '1-3 roots (all 6 orders), sampled (quick) or all (thorough) functions '
    'of 4 variables: (a) traversal through Function.var/low/high/negated '
    'and BDD.succ re-evaluated bottom-up equals the denotation; (b) '
    'descendants, len(u), dag_size, len(bdd) equal an own reachability '
    'count; (c) to_nx graph: node set == reachable set, level attributes '
    '== stored levels, evaluation over value/complement edge attributes '
    '== denotation; (d) DOT text of dump(filetype=dot) read by an own '
    '40-line reader (labels var-id, level rows, solid=then, dashed=else, '
    'taillabel -1 = complement, @ref rows): same node set, same levels, '
    'evaluation == denotation for every root; dd.bdd and dd.autoref. '
    'Histories: the same views of 1-3 held references after every step of '
    'random histories (node numbers freed and re-used, nodes relabelled in '
    'place by swaps/sifting/reordering, declarations and removals). '
    'Non-trivial: non-constant root; enumerated cases distinct by '
    'construction, sampled root sets by hash.')


def plan(tier, seed):
    specs = []
    n3 = ('a', 'b', 'c')
    for k, o in enumerate(orders(n3, 'thorough', seed, 6)):
        specs.append(dict(kind='all', names=n3, order=o, sample=None,
                          sets=1000 if tier == 'quick' else 3000, hashseed=k))
    n4 = ('a', 'b', 'c', 'd')
    if tier == 'thorough':
        for k, o in enumerate(orders(n4, tier, seed, 24)):
            for q in range(4):
                specs.append(dict(kind='all', names=n4, order=o,
                                  sample=None, lo=q * 16384,
                                  hi=(q + 1) * 16384, sets=4000,
                                  hashseed=k))
    else:
        for k, o in enumerate(dict.fromkeys(orders(n4, tier, seed, 6))):
            specs.append(dict(kind='all', names=n4, order=o, sample=3000,
                              sets=600, sub=k, hashseed=k))
    for k in range(12 if tier == 'quick' else 64):
        specs.append(dict(kind='history', sub=k, n=3 + k % 3,
                          manager='bdd' if k % 3 else 'autoref',
                          steps=250 if tier == 'quick' else 1500,
                          hashseed=k))
    # instances beyond truth tables (12-70 variables), see vf/big.py
    from vf import big
    specs.extend(big.specs(tier, seed, 'C18'))
    for k in range(2 if tier == 'quick' else 12):
        specs.append(dict(kind='deep', sub=k,
                          count=4 if tier == 'quick' else 20, hashseed=k))
    meta = dict(
        rule=RULE,
        require=['deep_diagrams', 'deep_paths_evaluated', 'big_histories', 'huge_histories', 'history_view_checks', 'long_lived_handle_checks',
                 'dynamic_histories',
                 'gc_freed_nodes', 'traversals', 'descendants_checks', 'nx_graphs',
                 'dot_files', 'dot_roots_evaluated', 'nx_roots_evaluated'],
        assumptions=['truth-table model in vf/oracle.py',
                     'DOT legend as documented in doc.md (solid = then, '
                     'dashed = else, -1 = complement)'],
        timeout=1500 if tier == 'quick' else 5400)
    return specs, meta


# ------------------------------------------------------------ traversal
def denote_function(f, sp, memo):
    """Evaluate through the public Function interface only."""
    node = abs(int(f))
    if node in memo:
        t = memo[node]
    else:
        v = f.var
        if v is None:
            t = sp.full
        else:
            lo = denote_function(f.low, sp, memo)
            hi = denote_function(f.high, sp, memo)
            m = sp.var(v)
            t = (m & hi) | ((sp.full ^ m) & lo)
        memo[node] = t
    return (sp.full ^ t) if f.negated else t


def denote_succ(ab, f, sp, memo):
    """Evaluate through `BDD.succ` (autoref) and `var_at_level`."""
    node = abs(int(f))
    if node in memo:
        t = memo[node]
    else:
        i, lo, hi = ab.succ(f)
        if lo is None:
            t = sp.full
        else:
            m = sp.var(ab.var_at_level(i))
            t = (m & denote_succ(ab, hi, sp, memo)) | (
                (sp.full ^ m) & denote_succ(ab, lo, sp, memo))
        memo[node] = t
    return (sp.full ^ t) if f.negated else t


# ------------------------------------------------------------ nx
dup = [0]


def eval_nx(g, root, l2v, sp):
    memo = dict()

    def rec(u):
        if u in memo:
            return memo[u]
        out = list(g.out_edges(u, data=True))
        if not out:
            t = sp.full
        else:
            lo = [e for e in out if e[2]['value'] is False]
            hi = [e for e in out if e[2]['value'] is True]
            # parallel duplicates (a node reached from two roots gets its
            # edges added twice) are tolerated when they agree: the
            # evaluation is the same whichever copy is followed
            for grp in (lo, hi):
                if not grp or len(grp) + len(out) - len(lo) - len(hi) \
                        != len(grp) or any(
                        (e[1], e[2]['complement']) !=
                        (grp[0][1], grp[0][2]['complement']) for e in grp):
                    raise Violation('to_nx', 'ambiguous-or-missing-edges',
                                    (u, out))
            if len(lo) > 1:
                dup[0] += 1
            tl = rec(lo[0][1])
            if lo[0][2]['complement']:
                tl = sp.full ^ tl
            th = rec(hi[0][1])
            if hi[0][2]['complement']:
                th = sp.full ^ th
            m = sp.var(l2v[g.nodes[u]['level']])
            t = (m & th) | ((sp.full ^ m) & tl)
        memo[u] = t
        return t
    t = rec(abs(root))
    return (sp.full ^ t) if root < 0 else t


# ------------------------------------------------------------ DOT
_NODE = re.compile(r'^\s*("[^"]*"|[\w-]+) \[(.*)\];\s*$')
_EDGE = re.compile(r'^\s*("[^"]*"|[\w-]+) -> ("[^"]*"|[\w-]+) \[(.*)\];\s*$')
_ATTR = re.compile(r'(\w+)="([^"]*)"')


def read_dot(text):
    """Return (nodes, edges, refs): nodes id -> (var, level_row);
    edges id -> dict(lo=(child, compl), hi=child); refs: list of
    (label, target, compl)."""
    nodes, edges, refs = dict(), dict(), []
    row = None      # label of the phantom node of the current subgraph
    pending = []    # nodes seen in the current subgraph
    rows = dict()
    ext = dict()
    for line in text.splitlines():
        s = line.strip()
        if s.startswith('subgraph'):
            row = None
            pending = []
            continue
        if s == '}':
            for u in pending:
                rows[u] = row
            pending = []
            continue
        m = _EDGE.match(line)
        if m:
            a, b, attr = m.group(1), m.group(2), dict(_ATTR.findall(m.group(3)))
            if attr.get('style') == 'invis':
                continue
            compl = attr.get('taillabel') == '-1'
            if a.startswith('"ref'):
                ext.setdefault(a, []).append((b, compl, attr.get('style')))
                continue
            d = edges.setdefault(a, dict())
            if attr.get('style') == 'dashed':
                if 'lo' in d:
                    raise Violation('dump-dot', 'two-else-edges', a)
                d['lo'] = (b, compl)
            elif attr.get('style') == 'solid':
                if 'hi' in d or compl:
                    raise Violation('dump-dot', 'bad-then-edge', a)
                d['hi'] = b
            else:
                raise Violation('dump-dot', 'edge-without-style', line)
            continue
        m = _NODE.match(line)
        if m:
            u, attr = m.group(1), dict(_ATTR.findall(m.group(2)))
            if u.startswith('"L'):
                row = attr['label']
                continue
            if u.startswith('"ref'):
                refs.append((u, attr['label']))
                pending.append(u)
                continue
            var, _, uid = attr['label'].rpartition('-')
            if uid != u:
                raise Violation('dump-dot', 'label-id-mismatch', line)
            nodes[u] = var
            pending.append(u)
    out_refs = []
    for u, label in refs:
        if rows.get(u) != 'ref':
            raise Violation('dump-dot', 'reference-not-in-ref-row', u)
        tg = ext.get(u, [])
        if len(tg) != 1:
            raise Violation('dump-dot', 'reference-without-one-edge', u)
        out_refs.append((label, tg[0][0], tg[0][1]))
    return nodes, edges, out_refs, rows


def eval_dot(nodes, edges, start, sp):
    memo = dict()

    def rec(u):
        if u in memo:
            return memo[u]
        d = edges.get(u)
        if d is None:
            if nodes[u] != 'True':
                raise Violation('dump-dot', 'leaf-not-labelled-True',
                                (u, nodes[u]))
            t = sp.full
        else:
            lo, c = d['lo']
            tl = rec(lo)
            if c:
                tl = sp.full ^ tl
            th = rec(d['hi'])
            m = sp.var(nodes[u])
            t = (m & th) | ((sp.full ^ m) & tl)
        memo[u] = t
        return t
    return rec(start)


# ------------------------------------------------------------ checks
def as_form(rng, roots, declared='iterable'):
    """`roots` in one of the forms that the declared type of the
    parameter admits: `descendants` takes an iterable, `to_nx` an
    "iterable of edges" (its docstring; annotated as a set), `dump` a
    list."""
    roots = list(roots)
    if declared == 'list':
        return roots
    if declared == 'set':
        return set(roots) if rng.randrange(2) else frozenset(roots)
    k = rng.randrange(6)
    if k == 0:
        return roots
    if k == 1:
        return tuple(roots)
    if k == 2:
        return set(roots)
    if k == 3:
        return (r for r in roots)
    if k == 4:
        return iter(roots)
    return dict.fromkeys(roots).keys()


def check_roots(ctx, A, ab, _a, _b, roots, rng):
    bdd, sp = A.bdd, A.sp
    den = Denoter(bdd, sp)
    reach = monitors.reachable(bdd, roots)
    info = dict(roots=list(roots), order=A.order)
    # (b) descendants and sizes
    d = bdd.descendants(as_form(rng, roots))
    ctx.counters['descendants_checks'] += 1
    if set(d) != reach:
        raise Violation('descendants', 'wrong-node-set',
                        dict(info, got=sorted(d), want=sorted(reach)))
    for r in roots:
        f = _a.Function(r, ab)
        own = len(monitors.reachable(bdd, [r]))
        if len(f) != own or f.dag_size != own:
            raise Violation('Function.__len__', 'wrong-size',
                            dict(info, got=len(f), want=own))
        # (a) traversal
        if denote_function(f, sp, dict()) != den(r):
            raise Violation('Function.low/high', 'traversal-gives-other-function',
                            dict(info, r=r))
        if denote_succ(ab, f, sp, dict()) != den(r):
            raise Violation('BDD.succ', 'traversal-gives-other-function',
                            dict(info, r=r))
        if abs(r) != 1:
            lvl, lo, hi = bdd.succ(r)
            if (lvl, lo, hi) != bdd._succ[abs(r)] or f.level != lvl or \
                    f.var != bdd.var_at_level(lvl):
                raise Violation('succ', 'wrong-triple', dict(info, r=r))
        ctx.counters['traversals'] += 1
        del f
    # (c) networkx
    g = _b.to_nx(bdd, as_form(rng, roots))
    ctx.counters['nx_graphs'] += 1
    if set(g.nodes) != reach:
        raise Violation('to_nx', 'wrong-node-set',
                        dict(info, got=sorted(g.nodes), want=sorted(reach)))
    for u in g.nodes:
        if g.nodes[u].get('level') != bdd._succ[u][0]:
            raise Violation('to_nx', 'wrong-level-attribute', dict(info, u=u))
    l2v = {i: v for v, i in bdd.vars.items()}
    for r in roots:
        if eval_nx(g, r, l2v, sp) != den(r):
            raise Violation('to_nx', 'graph-evaluates-to-other-function',
                            dict(info, r=r))
        ctx.counters['nx_roots_evaluated'] += 1
    # (d) DOT text
    fn = f'g{os.getpid()}.dot'
    via = rng.randrange(3)
    try:
        if via == 0:
            bdd.dump(fn, as_form(rng, roots, 'list'))
        elif via == 1:
            bdd.dump(fn + '.txt', as_form(rng, roots, 'list'),
                     filetype='dot')
            os.replace(fn + '.txt', fn)
        else:
            fs = [_a.Function(r, ab) for r in roots]
            ab.dump(fn, as_form(rng, fs, 'list'))
            del fs
        text = open(fn).read()
    finally:
        for p in (fn, fn + '.txt'):
            if os.path.exists(p):
                os.remove(p)
    ctx.counters['dot_files'] += 1
    nodes, edges, refs, rows = read_dot(text)
    if {int(u) for u in nodes} != reach:
        raise Violation('dump-dot', 'wrong-node-set',
                        dict(info, got=sorted(nodes), want=sorted(reach)))
    for u, var in nodes.items():
        lvl = bdd._succ[int(u)][0]
        if rows.get(u) != str(lvl):
            raise Violation('dump-dot', 'node-in-wrong-level-row',
                            dict(info, u=u, row=rows.get(u), level=lvl))
        if int(u) != 1 and var != l2v[lvl]:
            raise Violation('dump-dot', 'wrong-variable-label',
                            dict(info, u=u, var=var))
    want_labels = sorted(f'@{r}' for r in set(roots))
    if sorted(l for l, _, _ in refs) != want_labels:
        raise Violation('dump-dot', 'wrong-reference-rows',
                        dict(info, got=[l for l, _, _ in refs]))
    for label, target, compl in refs:
        r = int(label[1:])
        t = eval_dot(nodes, edges, target, sp)
        if compl:
            t = sp.full ^ t
        if t != den(r):
            raise Violation('dump-dot', 'graph-evaluates-to-other-function',
                            dict(info, r=r, via=via))
        ctx.counters['dot_roots_evaluated'] += 1


def all_(ctx, spec):
    import dd.autoref as _a
    import dd.bdd as _b
    names = tuple(spec['names'])
    order = tuple(spec['order'])
    rng = ctx.rng('all', names, order)
    sp = Space(names)
    if spec['sample'] is None:
        lo, hi = spec.get('lo', 0), spec.get('hi', sp.full + 1)
        tables = range(lo, min(hi, sp.full + 1))
        ctx.exhaustive = True
    else:
        tables = sorted({rng.getrandbits(sp.size)
                         for _ in range(spec['sample'])} | {0, sp.full})
    A = AllFunctions(names, order, tables)
    ab = _a.BDD()
    ab._bdd = A.bdd
    ab.vars = A.bdd.vars
    # len(bdd): every stored node is reachable from a held one here
    own = len(monitors.reachable(A.bdd, list(A.R.values())))
    if len(A.bdd) != own or len(ab) != own:
        raise Violation('len(bdd)', 'wrong-size', (len(A.bdd), own))
    bad = 0
    for t in A.tables:
        ok, _ = ctx.guard('views', check_roots, ctx, A, ab, _a, _b,
                          [A.R[t]], rng, case=dict(t=t, order=order))
        ctx.counters['evaluations'] += 1
        if 0 < t < sp.full:
            ctx.distinct_enum += 1
        bad += not ok
        if bad > 3:
            return
    for _ in range(spec['sets']):
        k = rng.randint(1, 3)
        ts = sorted({rng.choice(A.tables) for _ in range(k)})
        roots = [A.R[t] for t in ts]
        ok, _ = ctx.guard('views', check_roots, ctx, A, ab, _a, _b, roots,
                          rng, case=dict(ts=ts, order=order))
        ctx.case(any(abs(r) != 1 for r in roots), 'set', order,
                 tuple(sorted(ts)))
        bad += not ok
        if bad > 3:
            return
    # roots=None: every stored node, no reference rows
    fn = f'all{os.getpid()}.dot'
    A.bdd.dump(fn, None)
    nodes, edges, refs, rows = read_dot(open(fn).read())
    os.remove(fn)
    if {int(u) for u in nodes} != set(A.bdd._succ) or refs:
        ctx.violation('dump-dot', 'roots-None-not-all-nodes', None)
    # an empty collection of roots is not `None`: nothing is reachable, so
    # nothing (at most the terminal) may be exported; today the call is
    # refused with an exception, which exports nothing either
    for empty in ([], set(), ()):
        for via in ('bdd', 'autoref'):
            try:
                if via == 'bdd':
                    A.bdd.dump(fn, empty if not isinstance(empty, tuple)
                               else list(empty))
                else:
                    ab.dump(fn, list(empty))
            except Exception:
                ctx.counters['dump_of_no_roots_refused'] += 1
                continue
            finally:
                text = open(fn).read() if os.path.exists(fn) else None
                if os.path.exists(fn):
                    os.remove(fn)
            nodes, edges, refs, rows = read_dot(text)
            if {int(u) for u in nodes} - {1} or refs:
                ctx.violation('dump-dot', 'nodes-exported-for-no-roots',
                              dict(via=via, nodes=sorted(nodes)[:8]))
            ctx.counters['dump_of_no_roots_accepted'] += 1
    if _b.to_nx(A.bdd, set()).number_of_nodes() or \
            A.bdd.descendants([]) != set():
        ctx.violation('to_nx', 'nodes-for-no-roots', None)
    ctx.counters['nx_nodes_with_duplicated_edges_observed'] += dup[0]
    ctx.sample(dict(kind='all', names=names, order=order,
                    functions=len(A.tables), root_sets=spec['sets']))


def deep(ctx, spec):
    """Diagrams over hundreds of levels (cube, disjunction, parity over
    250-600 variables): node sets and sizes against an own (iterative)
    reachability, pointwise evaluation along single paths through the
    public views and through the exports."""
    import dd.autoref as _a
    import dd.bdd as _b
    rng = ctx.rng('deep', spec['sub'])
    for it in range(spec['count']):
        n = rng.choice((250, 251, 260, 300, 400, 600))
        names = [f'v{i}' for i in range(n)]
        ab = _a.BDD()
        ab.declare(*names)
        bdd = ab._bdd
        kind = rng.choice(('cube', 'or', 'parity'))
        vs = names if rng.random() < 0.5 else \
            sorted(rng.sample(names, n - rng.randint(1, 20)),
                   key=names.index)
        if kind == 'cube':
            d = {v: rng.random() < 0.7 for v in vs}
            f = ab.cube(d)
            value = lambda a, d=d: all(a[v] == b for v, b in d.items())
        elif kind == 'or':
            f = ab.false
            for v in reversed(vs):
                f = f | ab.var(v)
            value = lambda a, vs=vs: any(a[v] for v in vs)
        else:
            f = ab.false
            for v in reversed(vs):
                f = ab.apply('xor', f, ab.var(v))
            value = lambda a, vs=vs: sum(a[v] for v in vs) % 2 == 1
        if rng.random() < 0.3:
            f = ~f
            pos = value
            value = lambda a, pos=pos: not pos(a)
        u = f.node
        info = dict(kind=kind, variables=n, support=len(vs))
        reach = monitors.reachable(bdd, [u])
        ctx.note('deep_levels', n)
        # with the interpreter's default recursion limit (the shard
        # processes otherwise run with a much larger one): these depths
        # are within it
        import sys
        limit = sys.getrecursionlimit()
        sys.setrecursionlimit(1000)
        try:
            ok, _ = ctx.guard('views', _deep_views, ctx, ab, bdd, _b, f, u,
                              reach, value, names, rng, info, case=info)
        finally:
            sys.setrecursionlimit(limit)
        ctx.counters['deep_diagrams'] += 1
        ctx.case(True, 'deep', kind, n, len(vs), it)
        del f
        if not ok:
            return


def _deep_views(ctx, ab, bdd, _b, f, u, reach, value, names, rng, info):
    d = bdd.descendants([u])
    if set(d) != reach:
        raise Violation('descendants', 'wrong-node-set',
                        dict(info, got=len(d), want=len(reach)))
    if len(f) != len(reach) or f.dag_size != len(reach):
        raise Violation('Function.__len__', 'wrong-size',
                        dict(info, got=len(f), want=len(reach)))
    if len(ab) != len(bdd._succ):
        raise Violation('len(bdd)', 'wrong-size', info)
    g = _b.to_nx(bdd, {u})
    if set(g.nodes) != reach:
        raise Violation('to_nx', 'wrong-node-set',
                        dict(info, got=len(g.nodes), want=len(reach)))
    fn = f'deep{os.getpid()}.dot'
    try:
        ab.dump(fn, [f])
        text = open(fn).read()
    finally:
        if os.path.exists(fn):
            os.remove(fn)
    nodes, edges, refs, rows = read_dot(text)
    if {int(x) for x in nodes} != reach:
        raise Violation('dump-dot', 'wrong-node-set',
                        dict(info, got=len(nodes), want=len(reach)))
    # single paths: through Function.var/low/high/negated, and through
    # the DOT edges
    for _ in range(6):
        a = {v: rng.random() < 0.5 for v in names}
        if rng.random() < 0.5:
            a = dict.fromkeys(names, rng.random() < 0.5)
            a[rng.choice(names)] ^= True
        want = value(a)
        h, neg = f, False
        while h.var is not None:
            if h.negated:
                neg = not neg
                h = ~h
            h = h.high if a[h.var] else h.low
        if h.negated:
            neg = not neg
        if (not neg) != want:
            raise Violation('Function.low/high',
                            'traversal-gives-other-function', info)
        x, neg = str(abs(u)), u < 0
        while x in edges:
            e = edges[x]
            if a[nodes[x]]:
                x = e['hi']
            else:
                x, c = e['lo']
                neg = neg != c
        if (not neg) != want:
            raise Violation('dump-dot', 'graph-evaluates-to-other-function',
                            info)
        ctx.counters['deep_paths_evaluated'] += 1


def check_handles(ctx, w, V):
    sp, raw = w.sp, w.raw
    for e in w.pool:
        f = e.h
        info = dict(node=int(f), table=sp.fmt(e.tt))
        if denote_function(f, sp, dict()) != e.tt:
            raise Violation('Function.low/high',
                            'long-lived-handle-traverses-to-other-function',
                            info)
        if abs(int(f)) != 1:
            lvl = raw._succ[abs(int(f))][0]
            if f.level != lvl or f.var != raw.var_at_level(lvl):
                raise Violation('Function.var', 'stale-label',
                                dict(info, var=f.var, level=f.level,
                                     stored_level=lvl))
            if f.dag_size != len(monitors.reachable(raw, [int(f)])):
                raise Violation('Function.dag_size', 'wrong-size', info)
        ctx.counters['long_lived_handle_checks'] += 1


def history(ctx, spec):
    """The same views of the references held by a manager with a history
    (node numbers freed and re-used, nodes relabelled in place by swaps,
    sifting and reordering, variables declared and removed), after every
    step; dd.bdd and dd.autoref managers."""
    import dd.autoref as _a
    import dd.bdd as _b
    from vf.world import World, View, node_of
    rng = ctx.rng('history', spec['sub'])
    kind = spec['manager']
    reg = None
    if kind == 'autoref':
        reg = monitors.HandleRegistry()
        reg.install()
    try:
        names = [f'x{i}' for i in range(spec['n'])]
        import dd.bdd as _bm
        dynamic = kind == 'autoref' and spec['sub'] % 2 == 0
        starts0 = _bm.REORDER_STARTS
        if dynamic:
            _bm.REORDER_STARTS = 4
            ctx.counters['dynamic_histories'] += 1
        w = World(ctx, rng, names, kind=kind, strict=True, registry=reg,
                  reordering=dynamic)
        menu = dict(build=6, apply=8, ite=2, quantify=2, let_rename=1,
                    drop=7, gc=4, sift=1, reorder_to=2,
                    swap=3 if kind == 'bdd' else 0,
                    declare=1 if kind == 'bdd' else 0,
                    undeclare=1 if kind == 'bdd' else 0, **{'not': 1})
        if dynamic:
            menu.update(rearm=3, fop=3, traverse=2)
        for k in range(spec['steps']):
            ok, res = ctx.guard(w.site, w.step, menu, case=dict(
                spec=spec, step=k,
                tail=[list(map(str, d)) for d in w.log[-6:]]))
            if not ok:
                break
            if not w.pool:
                continue
            V = View(w)
            es = rng.sample(w.pool, min(len(w.pool), rng.randint(1, 3)))
            roots = [node_of(e.h) for e in es]
            if rng.random() < 0.3:
                roots[0] = -roots[0]
            # (a root listed twice is one root)
            roots = list(dict.fromkeys(roots))
            ok, _ = ctx.guard('views', check_roots, ctx, V, V.ab, _a, _b,
                              roots, rng,
                              case=dict(spec=spec, step=k, roots=roots,
                                        order=V.order,
                                        tail=[list(map(str, d))
                                              for d in w.log[-6:]]))
            es = None
            ctx.counters['history_view_checks'] += 1
            if kind == 'autoref':
                # the long-lived handles themselves (objects that were
                # created, and read, before reorderings relabelled their
                # nodes in place)
                ok, _ = ctx.guard('views', check_handles, ctx, w, V,
                                  case=dict(spec=spec, step=k,
                                            order=V.order,
                                            tail=[list(map(str, d))
                                                  for d in w.log[-6:]]))
                if not ok:
                    return
            ctx.case(any(abs(r) != 1 for r in roots), 'history', spec['sub'],
                     w.state_hash(), tuple(roots))
            if not ok:
                return
        ctx.sample(dict(kind='history', manager=kind, n=spec['n'],
                        steps=spec['steps'],
                        last_steps=[list(map(str, d)) for d in w.log[-5:]]))
        ctx.guard('shutdown', w.finish)
    finally:
        _bm.REORDER_STARTS = starts0
        if reg:
            reg.uninstall()


def run_shard(ctx, spec):
    if spec['kind'] == 'big':
        from vf import big
        return ctx.guard('big', big.run, ctx, spec, case=spec)
    if spec['kind'] == 'deep':
        return ctx.guard('deep', deep, ctx, spec, case=spec)
    fn = dict(all=all_, history=history)[spec['kind']]
    ctx.guard(spec['kind'], fn, ctx, spec, case=spec)
