"""C19 - C back ends: same operator meanings and a reference held for
every handle.

The C libraries are absent, so the wrappers are compiled (Cython + gcc,
both present) against instrumented stand-ins under /verif/fake/ whose
nodes are hash-consed truth tables with per-node external reference
counters. The wrapper code of the working tree is what executes; the
stand-in is the observation point.
"""
import collections
import ctypes
import gc
import itertools
import os
import shutil
import sys

from vf import cbuild, common, formula
from vf.common import Violation, EVENTS
from vf.oracle import Space, BINOPS, UNOPS, QUANT_OPS

RULE = (
    'dd/cudd.pyx of the working tree is cythonized and compiled against '
    'the instrumented stand-in /verif/fake/cudd (truth-table nodes, '
    'per-node counter of Cudd_Ref minus Cudd_RecursiveDeref/Cudd_Deref, '
    'hostile automatic reordering) and executed. (A) apply with every one '
    'of the 27 operator symbols on every ordered pair of the 256 functions '
    'of 3 variables (quantifier forms: first operand ranges over the 8 '
    'positive cubes; ite: all g x sampled (u, v)), Function operators, '
    'judged by the truth table read from the stand-in against the same '
    'reference model that judges the pure-Python manager in C01, and '
    'cross-checked against dd.bdd on sampled operands; (B) histories of '
    'wrapper calls (apply, ite, quantify/exist/forall, let x3, cube, var, '
    'add_expr, to_expr, support, count, pick_iter, low/high/succ, copy '
    'between managers, incref/decref, Function operators and methods, '
    'rejected calls) with a pool of live Function objects: after every '
    'step the set of nodes with a non-zero external count in the stand-in '
    'must equal the nodes of the live Functions with count == sum of their '
    '_ref; no release of an unreferenced node; at the end everything is '
    'dropped: no node referenced, manager shutdown passes. Non-trivial: '
    'non-constant operands; enumerated cases distinct by construction, '
    'history states by hash.')

NAMES = ('a', 'b', 'c')


def plan(tier, seed):
    specs = []
    syms = sorted(BINOPS) + sorted(QUANT_OPS)
    for k in range(4):
        specs.append(dict(kind='cudd-ops', syms=syms[k::4], unary=(k == 0),
                          hashseed=k))
    specs.append(dict(kind='cudd-ite', hashseed=1))
    nh = 32 if tier == 'thorough' else 8
    for k in range(nh):
        specs.append(dict(kind='cudd-history', sub=k, n=3 + k % 3,
                          steps=4000 if tier == 'thorough' else 500,
                          hashseed=k))
    meta = dict(
        rule=RULE,
        require=['apply_results', 'ite_results', 'function_op_results',
                 'python_manager_cross_checks', 'history_steps',
                 'ledger_checks', 'handles_released', 'shutdown_checks',
                 'order_rotations'],
        assumptions=[
            'only dd/cudd.pyx is executed (dd/cudd_zdd.pyx, dd/sylvan.pyx, '
            'dd/buddy.pyx are not covered: see DESIGN.md section 5)',
            'the stand-in library /verif/fake/cudd implements the CUDD '
            'entry points semantically on truth tables of <= 6 variables; '
            'it is the trusted base of this check',
            'quantifier forms of apply: first operand is a positive cube '
            '(CUDD abstracts over the variables of a cube)'],
        timeout=1500 if tier == 'quick' else 5400)
    return specs, meta


class Backend:
    """Freshly built `dd.cudd` of the working tree + stand-in probes."""

    def __init__(self):
        import dd
        self.tmp, so = cbuild.build('cudd')
        dd.__path__.append(os.path.join(self.tmp, 'dd'))
        import dd.cudd as _c
        if os.path.abspath(_c.__file__) != os.path.abspath(so):
            raise common.Inconclusive(f'dd.cudd loaded from {_c.__file__}')
        self.m = _c
        lib = ctypes.CDLL(so)
        lib.fakecudd_tt.restype = ctypes.c_uint64
        lib.fakecudd_tt.argtypes = [ctypes.c_size_t]
        lib.fakecudd_dump.argtypes = [ctypes.c_void_p, ctypes.c_int]
        self.lib = lib
        self.stats = (ctypes.c_long * 8).in_dll(lib, 'fakecudd_stats')
        self.buf = (ctypes.c_size_t * 8192)()

    def tt(self, f, sp):
        """Truth table of Function `f` over Space `sp` (names declared
        in sorted order, so CUDD index i is bit i)."""
        return self.lib.fakecudd_tt(int(f) - 2) & sp.full

    def ptr(self, f):
        return (int(f) - 2) & ~1

    def referenced(self):
        n = self.lib.fakecudd_dump(self.buf, 8192)
        return {self.buf[2 * i]: self.buf[2 * i + 1] for i in range(n)}

    def close(self):
        shutil.rmtree(self.tmp, ignore_errors=True)


def all_functions(be, bdd, sp):
    """Function objects for every table over `sp`, via var + ite."""
    xs = {v: bdd.var(v) for v in sp.names}
    memo = {sp.full: bdd.true, 0: bdd.false}

    def rec(t, i):
        if t in memo:
            return memo[t]
        while True:
            v = sp.names[i]
            lo, hi = sp.cof(t, v, 0), sp.cof(t, v, 1)
            if lo != hi:
                break
            i += 1
        r = bdd.ite(xs[v], rec(hi, i + 1), rec(lo, i + 1))
        memo[t] = r
        return r
    F = [rec(t, 0) for t in range(sp.full + 1)]
    for t, f in enumerate(F):
        if be.tt(f, sp) != t:
            raise Violation('cudd.ite', 'wrong-result', (t, be.tt(f, sp)))
    return F


MODEL = dict(
    AND=lambda sp, i, j: i & j, OR=lambda sp, i, j: i | j,
    XOR=lambda sp, i, j: i ^ j,
    IMPLIES=lambda sp, i, j: (sp.full ^ i) | j,
    EQUIV=lambda sp, i, j: sp.full ^ i ^ j,
    DIFF=lambda sp, i, j: i & (sp.full ^ j))


def cudd_ops(ctx, spec, be):
    mgrs = []
    _cudd_ops(ctx, spec, be, mgrs)
    _shutdown(ctx, be, mgrs)


def _cudd_ops(ctx, spec, be, mgrs):
    c = be.m
    sp = Space(NAMES)
    bdd = c.BDD()
    mgrs.append(bdd)
    bdd.declare(*NAMES)
    F = all_functions(be, bdd, sp)
    cubes = [sp.cube_table({v: True for v in s})
             for k in range(4) for s in itertools.combinations(NAMES, k)]
    n = nt = bad = 0
    for sym in spec['syms']:
        quant = sym in QUANT_OPS
        firsts = cubes if quant else range(256)
        for i in firsts:
            fi = F[i]
            for j in range(256):
                r = bdd.apply(sym, fi, F[j])
                if quant:
                    q = sp.support(i)
                    want = (sp.forall if QUANT_OPS[sym] else sp.exists)(j, q)
                else:
                    want = MODEL[BINOPS[sym]](sp, i, j)
                got = be.tt(r, sp)
                n += 1
                nt += (0 < i < 255) and (0 < j < 255)
                if got != want:
                    bad += 1
                    ctx.violation(
                        'cudd.apply', 'wrong-result',
                        dict(op=sym, u=sp.fmt(i), v=sp.fmt(j),
                             got=sp.fmt(got), want=sp.fmt(want)),
                        case=dict(op=sym, i=i, j=j))
                    if bad > 3:
                        return
        ctx.note('symbols', sym)
    if spec.get('unary'):
        for sym in UNOPS:
            for i in range(256):
                if be.tt(bdd.apply(sym, F[i]), sp) != 255 ^ i:
                    ctx.violation('cudd.apply-not', 'wrong-result',
                                  dict(op=sym, u=sp.fmt(i)))
                    break
                n += 1
            ctx.note('symbols', sym)
        # Function operators and comparisons
        m = 0
        for i in range(256):
            a = F[i]
            for j in range(0, 256, 3):
                b = F[j]
                got = (be.tt(~a, sp), be.tt(a & b, sp), be.tt(a | b, sp),
                       be.tt(a.implies(b), sp), be.tt(a.equiv(b), sp),
                       a <= b, a < b, a == b, a != b, a >= b, a > b)
                imp = (i & (255 ^ j)) == 0
                pmi = (j & (255 ^ i)) == 0
                want = (255 ^ i, i & j, i | j, (255 ^ i) | j, 255 ^ i ^ j,
                        imp, imp and i != j, i == j, i != j, pmi,
                        pmi and i != j)
                m += 11
                if got != want:
                    ctx.violation('cudd.Function-operators', 'wrong-result',
                                  dict(u=sp.fmt(i), v=sp.fmt(j),
                                       got=repr(got), want=repr(want)))
                    bad += 1
                    break
            if bad:
                break
        ctx.counters['function_op_results'] += m
        ctx.counters['evaluations'] += m
        ctx.distinct_enum += m
        # cross-check against the pure-Python manager on sampled operands
        import dd.bdd as _b
        from vf.oracle import build, Denoter
        rng = ctx.rng('cross')
        pb = _b.BDD({v: i for i, v in enumerate(NAMES)})
        P = [build(pb, t, sp) for t in range(256)]
        for r in P:
            pb.incref(r)
        den = None
        for _ in range(4000):
            sym = rng.choice(sorted(BINOPS) + sorted(QUANT_OPS))
            i = rng.choice(cubes) if sym in QUANT_OPS else rng.randrange(256)
            j = rng.randrange(256)
            pr = pb.apply(sym, P[i], P[j])
            want = Denoter(pb, sp)(pr)
            got = be.tt(bdd.apply(sym, F[i], F[j]), sp)
            ctx.counters['python_manager_cross_checks'] += 1
            if got != want:
                ctx.violation('cudd.apply', 'differs-from-python-manager',
                              dict(op=sym, u=sp.fmt(i), v=sp.fmt(j),
                                   cudd=sp.fmt(got), python=sp.fmt(want)))
                break
        for r in P:
            pb.decref(r)
    ctx.counters['evaluations'] += n
    ctx.counters['apply_results'] += n
    ctx.distinct_enum += nt
    ctx.exhaustive = True
    ctx.counters['order_rotations'] += be.stats[3]
    ctx.sample(dict(kind='cudd-ops', symbols=spec['syms'], pairs=65536))


def cudd_ite(ctx, spec, be):
    mgrs = []
    _cudd_ite(ctx, spec, be, mgrs)
    _shutdown(ctx, be, mgrs)


def _cudd_ite(ctx, spec, be, mgrs):
    c = be.m
    sp = Space(NAMES)
    bdd = c.BDD()
    mgrs.append(bdd)
    bdd.declare(*NAMES)
    F = all_functions(be, bdd, sp)
    rng = ctx.rng('ite')
    uv = [(rng.randrange(256), rng.randrange(256)) for _ in range(300)]
    n = 0
    for g in range(256):
        for u, v in uv:
            how = (g + u) % 2
            r = bdd.ite(F[g], F[u], F[v]) if how else \
                bdd.apply('ite', F[g], F[u], F[v])
            n += 1
            if be.tt(r, sp) != (g & u) | ((255 ^ g) & v):
                ctx.violation('cudd.ite', 'wrong-result',
                              dict(g=sp.fmt(g), u=sp.fmt(u), v=sp.fmt(v)))
                return
    ctx.counters['evaluations'] += n
    ctx.counters['ite_results'] += n
    ctx.distinct_enum += n
    ctx.sample(dict(kind='cudd-ite', triples=n))


def _shutdown(ctx, be, managers):
    """Everything dropped: nothing referenced; managers shut down."""
    gc.collect()
    left = be.referenced()
    if left:
        ctx.violation('cudd', 'nodes-referenced-after-all-handles-dropped',
                      dict(nodes=len(left), counts=sorted(left.values())[:8]))
    if be.stats[0]:
        ctx.violation('cudd', 'released-an-unreferenced-node',
                      dict(times=be.stats[0]))
        be.stats[0] = 0
    before = be.lib.fakecudd_managers()
    n = len(managers)
    del managers[:]
    gc.collect()
    un, ws = EVENTS.drain()
    for name, msg, obj in un:
        if 'dd.cudd' in obj or 'referenced upon shutdown' in msg and \
                'Still' in msg:
            ctx.violation('cudd.BDD.__dealloc__', 'shutdown-check-fails',
                          f'{name}: {msg}')
    after = be.lib.fakecudd_managers()
    if before - after != n and not left:
        ctx.violation('cudd.BDD.__dealloc__', 'manager-not-released',
                      dict(before=before, after=after, expected=n))
    ctx.counters['shutdown_checks'] += 1


def _clear_leaked_tracebacks(ctx):
    """Toolchain artefact, not dd: with Cython 3.0.0 on CPython 3.12 every
    exception that passes through a Cython function leaks its traceback
    object (measured: 50 failing `bdd.var('zzz')` leave 50 tracebacks that
    no object refers to). The leaked frames keep their locals - here the
    parser stack with Function objects - alive for ever. The harness
    clears those dead frames so that the ledger only sees references the
    wrapper itself holds."""
    import types
    gc.collect()
    n = 0
    for o in gc.get_objects():
        if isinstance(o, types.TracebackType):
            # the leaked frame and, through f_back, its finished callers
            f = o.tb_frame
            while f is not None:
                try:
                    f.clear()
                    n += 1
                except RuntimeError:
                    pass     # still executing: its locals are live
                f = f.f_back
    ctx.counters['leaked_traceback_frames_cleared'] += n
    gc.collect()


class Hist:
    """Random history through the dd.cudd API with a pool of live
    Function objects and the stand-in as ledger."""

    def __init__(self, ctx, be, rng, n):
        self.ctx, self.be, self.rng = ctx, be, rng
        self.names = tuple('abcdef'[:n])
        self.sp = Space(self.names)
        self.bdd = be.m.BDD()
        self.bdd.declare(*self.names)
        self.pool = []     # [Function, table]
        self.site = 'init'

    def hold(self, f, want, site):
        got = self.be.tt(f, self.sp)
        if want is not None and got != want:
            raise Violation(site, 'wrong-result',
                            dict(got=self.sp.fmt(got),
                                 want=self.sp.fmt(want)))
        self.pool.append([f, got])

    def pick(self):
        return self.rng.choice(self.pool)

    def check(self, site):
        gc.collect()
        exp = collections.Counter()
        for f, t in self.pool:
            exp[self.be.ptr(f)] += f._ref
            if self.be.tt(f, self.sp) != t:
                raise Violation(site, 'live-handle-changed-meaning', None)
        have = self.be.referenced()
        if dict(exp) != have:
            extra = {k: v for k, v in have.items() if exp.get(k) != v}
            miss = {k: v for k, v in exp.items() if have.get(k) != v}
            raise Violation(site, 'reference-count-mismatch',
                            dict(library=len(extra), handles=len(miss),
                                 library_counts=sorted(extra.values())[:6],
                                 handle_counts=sorted(miss.values())[:6]))
        if self.be.stats[0]:
            n = self.be.stats[0]
            self.be.stats[0] = 0
            raise Violation(site, 'released-an-unreferenced-node', n)
        self.ctx.counters['ledger_checks'] += 1

    def _rejected(self):
        # (no Function is bound to a local or closure variable of a
        # frame that an exception passes through: such frames are
        # leaked by the toolchain, see _clear_leaked_tracebacks)
        i = self.rng.randrange(len(self.pool))
        dep = bool(self.sp.support(self.pool[i][1]))
        for bad in (
                lambda s: s.bdd.var('nope'),
                lambda s: s.bdd.apply('nand', s.pool[i][0], s.pool[i][0]),
                lambda s: s.bdd.add_expr('a /\\ nope'),
                lambda s: s.bdd.add_expr('a /\\ ( b'),
                lambda s: s.bdd.let({'nope': True}, s.pool[i][0]),
                lambda s: s.bdd.quantify(s.pool[i][0], ['nope']),
                lambda s: s.bdd.count(s.pool[i][0], 0) if dep else
                s.bdd.var('nope')):
            try:
                bad(self)
            except Exception:
                self.ctx.counters['rejected_calls'] += 1

    def step(self):
        rng, sp, bdd, c = self.rng, self.sp, self.bdd, self.be.m
        names = list(self.names)
        if len(self.pool) < 2:
            k = 0
        else:
            k = rng.randrange(24)
        if k <= 1:
            v = rng.choice(names)
            self.hold(bdd.var(v), sp.var(v), 'cudd.var')
            site = 'var'
        elif k == 2:
            # (no `\S`: dd.cudd.BDD has no method `rename`, which the
            # parser needs for it - outside this property, see DESIGN.md)
            s = formula.gen(rng, names, rng.randint(1, 4), binders=True,
                            renames=False)
            want = formula.meaning(s, sp)
            self.hold(bdd.add_expr(s), want, 'cudd.add_expr')
            site = 'add_expr'
        elif k <= 6:
            sym = rng.choice(sorted(BINOPS))
            (a, ta), (b, tb) = self.pick(), self.pick()
            self.hold(bdd.apply(sym, a, b),
                      MODEL[BINOPS[sym]](sp, ta, tb), 'cudd.apply')
            site = 'apply'
        elif k == 7:
            (g, tg), (a, ta), (b, tb) = self.pick(), self.pick(), self.pick()
            self.hold(bdd.ite(g, a, b), sp.ITE(tg, ta, tb), 'cudd.ite')
            site = 'ite'
        elif k == 8:
            a, ta = self.pick()
            qv = rng.sample(names, rng.randint(0, 2))
            fa = rng.random() < 0.5
            how = rng.randrange(4)
            if how == 0:
                r = bdd.quantify(a, qv, forall=fa)
            elif how == 1:
                r = (bdd.forall if fa else bdd.exist)(qv, a)
            elif how == 2:
                r = (a.forall if fa else a.exist)(*qv)
            else:
                cube = bdd.cube({v: True for v in qv})
                r = bdd.apply('\\A' if fa else '\\E', cube, a)
                del cube
            self.hold(r, (sp.forall if fa else sp.exists)(ta, qv),
                      'cudd.quantify')
            site = 'quantify'
        elif k == 9:
            a, ta = self.pick()
            d = {v: rng.random() < 0.5 for v in
                 rng.sample(names, rng.randint(1, 2))}
            r = bdd.let(d, a) if rng.random() < 0.6 else a.let(**d)
            self.hold(r, sp.cofactor(ta, d), 'cudd.let-constants')
            site = 'let-constants'
        elif k == 10:
            a, ta = self.pick()
            d = {v: rng.choice(names) for v in
                 rng.sample(names, rng.randint(1, 2))}
            self.hold(bdd.let(d, a), sp.rename(ta, d), 'cudd.let-rename')
            site = 'let-rename'
        elif k == 11:
            a, ta = self.pick()
            vs = rng.sample(names, rng.randint(1, 2))
            subs = {v: self.pick() for v in vs}
            d = {v: e[0] for v, e in subs.items()}
            want = sp.substitute(ta, {v: e[1] for v, e in subs.items()})
            self.hold(bdd.let(d, a), want, 'cudd.let-compose')
            site = 'let-compose'
        elif k == 12:
            d = {v: rng.random() < 0.5 for v in
                 rng.sample(names, rng.randint(0, len(names)))}
            self.hold(bdd.cube(d), sp.cube_table(d), 'cudd.cube')
            site = 'cube'
        elif k == 13:
            a, ta = self.pick()
            if bdd.support(a) != sp.support(ta) or a.support != \
                    sp.support(ta):
                raise Violation('cudd.support', 'wrong-support', None)
            nv = len(sp.support(ta)) + rng.randint(0, 2)
            if bdd.count(a, nv) != sp.count(ta, nv):
                raise Violation('cudd.count', 'wrong-count',
                                (bdd.count(a, nv), sp.count(ta, nv)))
            ms = list(bdd.pick_iter(a))
            u = 0
            for m_ in ms:
                u |= sp.cube_table(m_)
            if u != ta:
                raise Violation('cudd.pick_iter', 'models-not-covered', None)
            p = bdd.pick(a)
            if (p is None) != (ta == 0):
                raise Violation('cudd.pick', 'none-iff-false-violated', p)
            site = 'queries'
        elif k == 14:
            a, ta = self.pick()
            s = bdd.to_expr(a)
            if formula.meaning(s, sp) != ta:
                raise Violation('cudd.to_expr', 'text-means-other-function',
                                s)
            self.hold(bdd.add_expr(s), ta, 'cudd.add_expr')
            site = 'to_expr'
        elif k == 15:
            a, ta = self.pick()
            if a.var is not None:
                v = a.var
                lo, hi = a.low, a.high
                lvl, lo2, hi2 = bdd.succ(a)
                tn = sp.NOT(ta) if a.negated else ta
                self.hold(lo, sp.cof(tn, v, 0), 'cudd.low')
                self.hold(hi, sp.cof(tn, v, 1), 'cudd.high')
                if lo2 != lo or hi2 != hi or len(a) < 2:
                    raise Violation('cudd.succ', 'succ-differs', None)
                del lo2, hi2
            site = 'traverse'
        elif k == 16:
            a, ta = self.pick()
            sym = rng.choice(UNOPS)
            r = bdd.apply(sym, a) if rng.random() < 0.5 else ~a
            self.hold(r, sp.NOT(ta), 'cudd.apply-not')
            site = 'not'
        elif k == 17:
            (a, ta), (b, tb) = self.pick(), self.pick()
            kk = rng.randrange(4)
            r, want = ((a & b, ta & tb), (a | b, ta | tb),
                       (a.implies(b), sp.IMPLIES(ta, tb)),
                       (a.equiv(b), sp.EQUIV(ta, tb)))[kk]
            self.hold(r, want, 'cudd.Function-operators')
            site = 'fop'
        elif k == 18:
            # copy to another manager and back
            a, ta = self.pick()
            other = c.BDD()
            other.declare(*self.names)
            o = bdd.copy(a, other) if rng.random() < 0.5 else \
                c.copy_bdd(a, other)
            if self.be.tt(o, sp) != ta:
                raise Violation('cudd.copy', 'copy-denotes-other-function',
                                None)
            back = other.copy(o, bdd)
            del o
            self.hold(back, ta, 'cudd.copy')
            del other
            site = 'copy'
        elif k == 19:
            # public incref/decref on a handle
            e = self.pick()
            bdd.incref(e[0])
            if rng.random() < 0.7:
                bdd.decref(e[0], recursive=rng.random() < 0.5)
            site = 'incref-decref'
        elif k == 20:
            # rejected calls must not leak temporaries; they run in
            # their own frames, which are dead (and can be cleared) when
            # the ledger is compared
            self._rejected()
            # a failed parse leaves operands on the parser's stack until
            # the next parse begins (not a wrapper method: not judged)
            bdd.add_expr('TRUE')
            _clear_leaked_tracebacks(self.ctx)
            site = 'rejected-calls'
        elif k == 21:
            # explicit reordering
            if rng.random() < 0.5:
                bdd.reorder()
            else:
                o = names[:]
                rng.shuffle(o)
                bdd.reorder({v: i for i, v in enumerate(o)})
                if bdd.var_levels != {v: i for i, v in enumerate(o)}:
                    raise Violation('cudd.reorder', 'order-not-reached',
                                    bdd.var_levels)
            site = 'reorder'
        else:
            # drop handles (the last reference of a node dies here)
            for _ in range(rng.randint(1, 3)):
                if len(self.pool) > 1:
                    e = self.pool.pop(rng.randrange(len(self.pool)))
                    # a handle whose _ref was raised by incref is
                    # released by decref down to 1 first
                    while e[0]._ref > 1:
                        bdd.decref(e[0])
                    self.ctx.counters['handles_released'] += 1
                    del e
            site = 'drop'
        self.site = site
        self.ctx.counters['history_steps'] += 1
        self.ctx.counters['step_' + site] += 1
        self.check(site)


def cudd_history(ctx, spec, be):
    rng = ctx.rng('history', spec['sub'])
    h = Hist(ctx, be, rng, spec['n'])
    for k in range(spec['steps']):
        ok, _ = ctx.guard('cudd.' + h.site, h.step,
                          case=dict(spec=spec, step=k, last=h.site))
        if not ok:
            break
        ctx.case(True, 'hist', spec['sub'], k,
                 tuple(sorted(t for f, t in h.pool))[:12])
    ctx.counters['order_rotations'] += be.stats[3]
    ctx.sample(dict(kind='cudd-history', n=spec['n'], steps=spec['steps'],
                    live_handles=len(h.pool)))
    for e in h.pool:
        while e[0]._ref > 1:
            h.bdd.decref(e[0])
    e = None
    ctx.counters['handles_released'] += len(h.pool)
    del h.pool[:]
    _clear_leaked_tracebacks(ctx)
    mgrs = [h.bdd]
    h.bdd = None
    _shutdown(ctx, be, mgrs)


def run_shard(ctx, spec):
    def run():
        be = Backend()
        try:
            fn = {'cudd-ops': cudd_ops, 'cudd-ite': cudd_ite,
                  'cudd-history': cudd_history}[spec['kind']]
            fn(ctx, spec, be)
        finally:
            be.close()
    try:
        run()
    except cbuild.BuildError as e:
        # the wrapper of the working tree does not compile any more
        ctx.violation('build', 'wrapper-does-not-compile', str(e)[-1500:])
    except Violation as v:
        ctx.violation(v.site, v.symptom, v.detail, spec)
    except common.Inconclusive:
        raise
    except Exception as e:
        import traceback
        ctx.violation(spec['kind'], 'unexpected-exception:' +
                      type(e).__name__, traceback.format_exc(limit=8), spec)
