"""C19 - C back ends: same operator meanings and a reference held for
every handle.

The C libraries are absent, so the wrappers dd/cudd.pyx, dd/sylvan.pyx
and dd/buddy.pyx of the working tree are compiled (Cython + gcc, both
present) against instrumented stand-ins under /verif/fake/ whose nodes
are hash-consed truth tables with per-node external reference counters,
and executed. The wrapper code is what runs; the stand-in is the
observation point. dd/cudd_zdd.pyx is not covered (DESIGN.md section 5).
"""
import collections
import ctypes
import gc
import itertools
import os
import re
import shutil
import types

from vf import cbuild, common, formula
from vf.common import Violation, EVENTS
from vf.oracle import Space, BINOPS, UNOPS, QUANT_OPS

RULE = (
    'dd/cudd.pyx, dd/sylvan.pyx and dd/buddy.pyx of the working tree are '
    'cythonized and compiled against the instrumented stand-ins '
    '/verif/fake/{cudd,sylvan,buddy} (truth-table nodes; per-node counter '
    'of library references taken minus released by the wrapper; for CUDD '
    'hostile automatic reordering) and executed. (A) for every one of the '
    '27 operator symbols that the wrapper\'s apply accepts: every ordered '
    'pair of the 256 functions of 3 variables (quantifier forms: first '
    'operand ranges over the 8 positive cubes, which is what the C '
    'libraries abstract over; ite: all g x sampled (u, v)), Function '
    'operators and comparisons, judged by the truth table read from the '
    'stand-in against the reference model that judges the pure-Python '
    'manager in C01, and cross-checked against dd.bdd.BDD.apply on '
    'sampled operands; symbols a wrapper refuses are only listed; (B) '
    'histories of wrapper calls (whatever the wrapper offers of: apply, '
    'ite, quantify/exist/forall, let x3, cube, var, add_expr, to_expr, '
    'support, count, pick_iter, low/high/succ, copy between managers, '
    'incref/decref, module-level and_exists/or_forall/restrict/rename, '
    'Function operators and methods, rejected calls, reordering) with a '
    'pool of live Function objects: after every step the set of nodes '
    'with a non-zero external count in the stand-in must equal the nodes '
    'of the live Functions, count == number of references they hold; no '
    'release of an unreferenced node; at the end everything is dropped: '
    'no node referenced, manager shutdown passes. Non-trivial: '
    'non-constant operands; enumerated cases distinct by construction, '
    'history states by hash.')

NAMES = ('a', 'b', 'c')
BACKENDS = ('cudd', 'sylvan', 'buddy')


def plan(tier, seed):
    specs = []
    syms = sorted(BINOPS) + sorted(QUANT_OPS)
    for be in BACKENDS:
        parts = 4 if be != 'buddy' else 1
        for k in range(parts):
            specs.append(dict(kind='ops', backend=be, syms=syms[k::parts],
                              unary=(k == 0), hashseed=k))
        if be != 'buddy':
            specs.append(dict(kind='ite', backend=be, hashseed=1))
        nh = (32 if tier == 'thorough' else 8) if be == 'cudd' else \
            (16 if tier == 'thorough' else 4)
        for k in range(nh):
            specs.append(dict(kind='history', backend=be, sub=k,
                              n=3 + k % 3,
                              steps=4000 if tier == 'thorough' else 500,
                              hashseed=k))
    meta = dict(
        rule=RULE,
        require=['apply_results', 'ite_results', 'function_op_results',
                 'python_manager_cross_checks', 'history_steps',
                 'ledger_checks', 'handles_released', 'shutdown_checks',
                 'handles_released_in_cycles',
                 'order_rotations', 'apply_results_cudd',
                 'apply_results_sylvan', 'apply_results_buddy'],
        assumptions=[
            'dd/cudd_zdd.pyx is not executed (its recursions are written '
            'against internal ZDD node structure of CUDD)',
            'the stand-in libraries under /verif/fake/ implement the C '
            'entry points semantically on truth tables of <= 6 variables; '
            'they are the trusted base of this check',
            'quantifier forms of apply: first operand is a positive cube '
            '(the C libraries abstract over the variables of a cube)'],
        timeout=1500 if tier == 'quick' else 5400)
    return specs, meta


# ------------------------------------------------------------ adapters
class Backend:
    """Freshly built wrapper of the working tree + stand-in probes."""

    def __init__(self, name):
        import dd
        self.name = name
        self.tmp, so = cbuild.build(name)
        dd.__path__.append(os.path.join(self.tmp, 'dd'))
        import importlib
        self.m = importlib.import_module(f'dd.{name}')
        if os.path.abspath(self.m.__file__) != os.path.abspath(so):
            raise common.Inconclusive(
                f'dd.{name} loaded from {self.m.__file__}')
        lib = ctypes.CDLL(so)
        self.lib = lib
        self._tt = getattr(lib, f'fake{name}_tt')
        self._tt.restype = ctypes.c_uint64
        self._tt.argtypes = [ctypes.c_uint64 if name != 'buddy'
                             else ctypes.c_int]
        self._dump = getattr(lib, f'fake{name}_dump')
        self._dump.argtypes = [ctypes.c_void_p, ctypes.c_int]
        self.stats = (ctypes.c_long * 8).in_dll(lib, f'fake{name}_stats')
        self.buf = (ctypes.c_uint64 * 16384)()
        self.features = dict(
            cudd={'ite', 'quantify', 'let', 'cube', 'cube-signs',
                  'support', 'count', 'pick', 'to_expr', 'traverse',
                  'copy', 'incref', 'reorder', 'add_expr', 'fmethods',
                  'implies-equiv', 'rejected', 'json'},
            sylvan={'ite', 'quantify', 'let', 'cube', 'cube-signs',
                    'support', 'pick', 'traverse', 'add_expr',
                    'sylvan-module', 'rejected'},
            buddy={'cube', 'buddy-module'})[name]

    # --- handles
    def handle(self, f):
        if self.name == 'cudd':
            return int(f) - 2
        if self.name == 'sylvan':
            return int(re.search(r'node=(\d+)', str(f)).group(1))
        return f.node

    def tt(self, f, sp):
        return self._tt(self.handle(f)) & sp.full

    def key(self, f):
        """Ledger key of the node of `f`, None for constants that the
        library does not count."""
        h = self.handle(f)
        if self.name == 'cudd':
            return h & ~1
        if self.name == 'sylvan':
            k = h & 0x7fffffffffffffff
            return k or None
        return h if h >= 2 else None

    def nrefs(self, f):
        return f._ref if self.name == 'cudd' else 1

    def referenced(self):
        n = self._dump(self.buf, 16384)
        return {self.buf[2 * i]: self.buf[2 * i + 1] for i in range(n)}

    def managers_alive(self):
        if self.name == 'cudd':
            return self.lib.fakecudd_managers()
        return getattr(self.lib, f'fake{self.name}_running')()

    def manager(self, names):
        bdd = self.m.BDD()
        for v in names:
            bdd.add_var(v)
        return bdd

    def close(self):
        shutil.rmtree(self.tmp, ignore_errors=True)


def all_functions(be, bdd, sp):
    """Function objects for every table over `sp`, through the wrapper
    (var + ite where offered, else and/or/not)."""
    xs = {v: bdd.var(v) for v in sp.names}
    memo = {sp.full: bdd.true, 0: bdd.false}

    def ite(g, a, b):
        if 'ite' in be.features:
            return bdd.ite(g, a, b)
        return (g & a) | (~g & b)

    def rec(t, i):
        if t in memo:
            return memo[t]
        while True:
            v = sp.names[i]
            lo, hi = sp.cof(t, v, 0), sp.cof(t, v, 1)
            if lo != hi:
                break
            i += 1
        r = ite(xs[v], rec(hi, i + 1), rec(lo, i + 1))
        memo[t] = r
        return r
    F = [rec(t, 0) for t in range(sp.full + 1)]
    for t, f in enumerate(F):
        if be.tt(f, sp) != t:
            raise Violation(f'{be.name}.ite', 'wrong-result',
                            (t, be.tt(f, sp)))
    return F


MODEL = dict(
    AND=lambda sp, i, j: i & j, OR=lambda sp, i, j: i | j,
    XOR=lambda sp, i, j: i ^ j,
    IMPLIES=lambda sp, i, j: (sp.full ^ i) | j,
    EQUIV=lambda sp, i, j: sp.full ^ i ^ j,
    DIFF=lambda sp, i, j: i & (sp.full ^ j))


def accepted(bdd, sym, *operands):
    """Does the wrapper's apply accept this symbol at all ?"""
    try:
        bdd.apply(sym, *operands)
        return True
    except Exception:
        return False


def ops(ctx, spec, be):
    mgrs = []
    _ops(ctx, spec, be, mgrs)
    _clear_leaked_tracebacks(ctx)
    _shutdown(ctx, be, mgrs)


def _ops(ctx, spec, be, mgrs):
    sp = Space(NAMES)
    bdd = be.manager(NAMES)
    mgrs.append(bdd)
    name = be.name
    F = all_functions(be, bdd, sp)
    cubes = [sp.cube_table({v: True for v in s})
             for k in range(4) for s in itertools.combinations(NAMES, k)]
    n = nt = bad = 0
    used = []
    for sym in spec['syms']:
        quant = sym in QUANT_OPS
        if not accepted(bdd, sym, F[cubes[1]], F[23]):
            ctx.note(f'refused_by_{name}', sym)
            continue
        used.append(sym)
        firsts = cubes if quant else range(256)
        for i in firsts:
            fi = F[i]
            for j in range(256):
                r = bdd.apply(sym, fi, F[j])
                if quant:
                    q = sp.support(i)
                    want = (sp.forall if QUANT_OPS[sym] else sp.exists)(j, q)
                else:
                    want = MODEL[BINOPS[sym]](sp, i, j)
                got = be.tt(r, sp)
                n += 1
                nt += (0 < i < 255) and (0 < j < 255)
                if got != want:
                    bad += 1
                    ctx.violation(
                        f'{name}.apply', 'wrong-result',
                        dict(op=sym, u=sp.fmt(i), v=sp.fmt(j),
                             got=sp.fmt(got), want=sp.fmt(want)),
                        case=dict(backend=name, op=sym, i=i, j=j))
                    if bad > 3:
                        return
        ctx.note(f'symbols_{name}', sym)
    if spec.get('unary'):
        for sym in UNOPS:
            if not accepted(bdd, sym, F[23]):
                ctx.note(f'refused_by_{name}', sym)
                continue
            for i in range(256):
                if be.tt(bdd.apply(sym, F[i]), sp) != 255 ^ i:
                    ctx.violation(f'{name}.apply-not', 'wrong-result',
                                  dict(op=sym, u=sp.fmt(i)))
                    break
                n += 1
            ctx.note(f'symbols_{name}', sym)
        # Function operators and comparisons
        m = 0
        full = 'implies-equiv' in be.features
        for i in range(256):
            a = F[i]
            for j in range(0, 256, 3):
                b = F[j]
                got = [be.tt(~a, sp), be.tt(a & b, sp), be.tt(a | b, sp),
                       a == b, a != b]
                want = [255 ^ i, i & j, i | j, i == j, i != j]
                if full:
                    imp = (i & (255 ^ j)) == 0
                    pmi = (j & (255 ^ i)) == 0
                    got += [be.tt(a.implies(b), sp), be.tt(a.equiv(b), sp),
                            a <= b, a < b, a >= b, a > b]
                    want += [(255 ^ i) | j, 255 ^ i ^ j, imp,
                             imp and i != j, pmi, pmi and i != j]
                m += len(want)
                if got != want:
                    ctx.violation(f'{name}.Function-operators',
                                  'wrong-result',
                                  dict(u=sp.fmt(i), v=sp.fmt(j),
                                       got=repr(got), want=repr(want)))
                    bad += 1
                    break
            if bad:
                break
        ctx.counters['function_op_results'] += m
        ctx.counters['evaluations'] += m
        ctx.distinct_enum += m
    if used:
        # cross-check against the pure-Python manager on sampled operands
        import dd.bdd as _b
        from vf.oracle import build, Denoter
        rng = ctx.rng('cross', name)
        pb = _b.BDD({v: i for i, v in enumerate(NAMES)})
        P = [build(pb, t, sp) for t in range(256)]
        for r in P:
            pb.incref(r)
        for _ in range(3000):
            sym = rng.choice(used)
            i = rng.choice(cubes) if sym in QUANT_OPS else rng.randrange(256)
            j = rng.randrange(256)
            pr = pb.apply(sym, P[i], P[j])
            want = Denoter(pb, sp)(pr)
            got = be.tt(bdd.apply(sym, F[i], F[j]), sp)
            ctx.counters['python_manager_cross_checks'] += 1
            if got != want:
                ctx.violation(f'{name}.apply', 'differs-from-python-manager',
                              dict(op=sym, u=sp.fmt(i), v=sp.fmt(j),
                                   wrapper=sp.fmt(got),
                                   python=sp.fmt(want)))
                break
        for r in P:
            pb.decref(r)
    ctx.counters['evaluations'] += n
    ctx.counters['apply_results'] += n
    ctx.counters[f'apply_results_{name}'] += n
    ctx.distinct_enum += nt
    ctx.exhaustive = True
    if name == 'cudd':
        ctx.counters['order_rotations'] += be.stats[3]
    ctx.sample(dict(kind='ops', backend=name, symbols_checked=used,
                    pairs=65536))


def ite_sweep(ctx, spec, be):
    mgrs = []
    _ite(ctx, spec, be, mgrs)
    _shutdown(ctx, be, mgrs)


def _ite(ctx, spec, be, mgrs):
    sp = Space(NAMES)
    bdd = be.manager(NAMES)
    mgrs.append(bdd)
    F = all_functions(be, bdd, sp)
    rng = ctx.rng('ite', be.name)
    uv = [(rng.randrange(256), rng.randrange(256)) for _ in range(300)]
    n = 0
    for g in range(256):
        for u, v in uv:
            how = (g + u) % 2
            r = bdd.ite(F[g], F[u], F[v]) if how else \
                bdd.apply('ite', F[g], F[u], F[v])
            n += 1
            if be.tt(r, sp) != (g & u) | ((255 ^ g) & v):
                ctx.violation(f'{be.name}.ite', 'wrong-result',
                              dict(g=sp.fmt(g), u=sp.fmt(u), v=sp.fmt(v)))
                return
    ctx.counters['evaluations'] += n
    ctx.counters['ite_results'] += n
    ctx.distinct_enum += n
    ctx.sample(dict(kind='ite', backend=be.name, triples=n))


def _shutdown(ctx, be, managers):
    """Everything dropped: nothing referenced; managers shut down."""
    name = be.name
    gc.collect()
    left = be.referenced()
    if left:
        ctx.violation(name, 'nodes-referenced-after-all-handles-dropped',
                      dict(nodes=len(left), counts=sorted(left.values())[:8]))
    if be.stats[0]:
        ctx.violation(name, 'released-an-unreferenced-node',
                      dict(times=be.stats[0]))
        be.stats[0] = 0
    before = be.managers_alive()
    n = len(managers)
    del managers[:]
    gc.collect()
    un, ws = EVENTS.drain()
    for ename, msg, obj in un:
        if f'dd.{name}' in obj or ('referenced upon shutdown' in msg and
                                    'Still' in msg):
            ctx.violation(f'{name}.BDD.__dealloc__', 'shutdown-check-fails',
                          f'{ename}: {msg}')
    after = be.managers_alive()
    if before - after != n and not left:
        ctx.violation(f'{name}.BDD.__dealloc__', 'manager-not-released',
                      dict(before=before, after=after, expected=n))
    ctx.counters['shutdown_checks'] += 1


def _clear_leaked_tracebacks(ctx):
    """Toolchain artefact, not dd: with Cython 3.0.0 on CPython 3.12 every
    exception that passes through a Cython function leaks its traceback
    object (measured: 50 failing `bdd.var('zzz')` leave 50 tracebacks that
    no object refers to). The leaked frames - and through f_back their
    finished callers - keep their locals alive, e.g. the parser stack
    with Function objects. The harness clears those dead frames so that
    the ledger only sees references the wrapper itself holds."""
    gc.collect()
    n = 0
    for o in gc.get_objects():
        if isinstance(o, types.TracebackType):
            f = o.tb_frame
            while f is not None:
                try:
                    f.clear()
                    n += 1
                except RuntimeError:
                    pass     # still executing: its locals are live
                f = f.f_back
    ctx.counters['leaked_traceback_frames_cleared'] += n
    gc.collect()


class Hist:
    """Random history through a wrapper's API with a pool of live
    Function objects and the stand-in as ledger."""

    def __init__(self, ctx, be, rng, n):
        self.ctx, self.be, self.rng = ctx, be, rng
        self.names = tuple('abcdef'[:n])
        self.sp = Space(self.names)
        self.bdd = be.manager(self.names)
        self.pool = []     # [Function, table]
        self.site = 'init'
        self.feat = be.features
        self.P = be.name + '.'

    def hold(self, f, want, site):
        got = self.be.tt(f, self.sp)
        if want is not None and got != want:
            raise Violation(self.P + site, 'wrong-result',
                            dict(got=self.sp.fmt(got),
                                 want=self.sp.fmt(want)))
        self.pool.append([f, got])

    def pick(self):
        return self.rng.choice(self.pool)

    def check(self, site):
        gc.collect()
        be = self.be
        exp = collections.Counter()
        for f, t in self.pool:
            k = be.key(f)
            if k is not None:
                exp[k] += be.nrefs(f)
            if be.tt(f, self.sp) != t:
                raise Violation(self.P + site, 'live-handle-changed-meaning',
                                None)
        have = be.referenced()
        if dict(exp) != have:
            extra = {k: v for k, v in have.items() if exp.get(k) != v}
            miss = {k: v for k, v in exp.items() if have.get(k) != v}
            raise Violation(self.P + site, 'reference-count-mismatch',
                            dict(library=len(extra), handles=len(miss),
                                 library_counts=sorted(extra.values())[:6],
                                 handle_counts=sorted(miss.values())[:6]))
        if be.stats[0]:
            n = be.stats[0]
            be.stats[0] = 0
            raise Violation(self.P + site, 'released-an-unreferenced-node',
                            n)
        self.ctx.counters['ledger_checks'] += 1

    def _rejected(self):
        # (no Function is bound to a local or closure variable of a
        # frame that an exception passes through: such frames are
        # leaked by the toolchain, see _clear_leaked_tracebacks)
        i = self.rng.randrange(len(self.pool))
        dep = bool(self.sp.support(self.pool[i][1]))
        for bad in (
                lambda s: s.bdd.var('nope'),
                lambda s: s.bdd.apply('nand', s.pool[i][0], s.pool[i][0]),
                lambda s: s.bdd.add_expr('a /\\ nope'),
                lambda s: s.bdd.add_expr('a /\\ ( b'),
                lambda s: s.bdd.let({'nope': True}, s.pool[i][0]),
                lambda s: s.bdd.quantify(s.pool[i][0], ['nope']),
                lambda s: s.bdd.count(s.pool[i][0], 0) if dep else
                s.bdd.var('nope'),
                # refused part-way: the first item is fine, a later
                # one is not (temporaries taken so far must be released)
                lambda s: s.bdd.let({'a': s.pool[i][0],
                                     'nope': s.pool[i][0]}, s.pool[i][0]),
                lambda s: s.bdd.let({'a': s.pool[i][0], 'b': True},
                                    s.pool[i][0]),
                lambda s: s.bdd.let({'a': 'b', 'nope': 'a'}, s.pool[i][0]),
                lambda s: s.bdd.let({'a': True, 'nope': False},
                                    s.pool[i][0]),
                lambda s: s.bdd.cube({'a': True, 'nope': True}),
                lambda s: s.bdd.quantify(s.pool[i][0], ['a', 'nope']),
                lambda s: s.bdd.apply('and', s.pool[i][0]),
                lambda s: s.bdd.apply('ite', s.pool[i][0], s.pool[i][0]),
                lambda s: s.bdd.ite(s.pool[i][0], s.pool[i][0], None)):
            try:
                bad(self)
            except Exception:
                self.ctx.counters['rejected_calls'] += 1

    def step(self):
        rng, sp, bdd, c = self.rng, self.sp, self.bdd, self.be.m
        feat = self.feat
        names = list(self.names)
        k = 0 if len(self.pool) < 2 else rng.randrange(26)
        site = None
        if k <= 1:
            v = rng.choice(names)
            self.hold(bdd.var(v), sp.var(v), 'var')
            site = 'var'
        elif k == 2 and 'add_expr' in feat:
            # (no `\S`: the wrappers have no method `rename`, which the
            # parser needs for it - outside this property, see DESIGN.md)
            s = formula.gen(rng, names, rng.randint(1, 4), binders=True,
                            renames=False)
            want = formula.meaning(s, sp)
            self.hold(bdd.add_expr(s), want, 'add_expr')
            site = 'add_expr'
        elif k <= 6:
            syms = sorted(BINOPS) if self.be.name != 'buddy' else \
                ['&', 'and', '|', 'or', '#', '^', 'xor']
            sym = rng.choice(syms)
            (a, ta), (b, tb) = self.pick(), self.pick()
            self.hold(bdd.apply(sym, a, b),
                      MODEL[BINOPS[sym]](sp, ta, tb), 'apply')
            site = 'apply'
        elif k == 7 and 'ite' in feat:
            (g, tg), (a, ta), (b, tb) = self.pick(), self.pick(), self.pick()
            self.hold(bdd.ite(g, a, b), sp.ITE(tg, ta, tb), 'ite')
            site = 'ite'
        elif k == 8 and 'quantify' in feat:
            a, ta = self.pick()
            qv = rng.sample(names, rng.randint(0, 2))
            fa = rng.random() < 0.5
            how = rng.randrange(4 if 'fmethods' in feat else 3)
            if how == 0:
                r = bdd.quantify(a, qv, forall=fa)
            elif how == 1:
                r = (bdd.forall if fa else bdd.exist)(qv, a)
            elif how == 2:
                cube = bdd.cube({v: True for v in qv})
                r = bdd.apply('\\A' if fa else '\\E', cube, a)
                cube = None
            else:
                r = (a.forall if fa else a.exist)(*qv)
            self.hold(r, (sp.forall if fa else sp.exists)(ta, qv),
                      'quantify')
            site = 'quantify'
        elif k == 9 and 'let' in feat:
            a, ta = self.pick()
            d = {v: rng.random() < 0.5 for v in
                 rng.sample(names, rng.randint(1, 2))}
            r = bdd.let(d, a) if rng.random() < 0.6 or \
                'fmethods' not in feat else a.let(**d)
            self.hold(r, sp.cofactor(ta, d), 'let-constants')
            site = 'let-constants'
        elif k == 10 and 'let' in feat:
            a, ta = self.pick()
            d = {v: rng.choice(names) for v in
                 rng.sample(names, rng.randint(1, 2))}
            self.hold(bdd.let(d, a), sp.rename(ta, d), 'let-rename')
            site = 'let-rename'
        elif k == 11 and 'let' in feat:
            a, ta = self.pick()
            vs = rng.sample(names, rng.randint(1, 2))
            subs = {v: self.pick() for v in vs}
            d = {v: e[0] for v, e in subs.items()}
            want = sp.substitute(ta, {v: e[1] for v, e in subs.items()})
            self.hold(bdd.let(d, a), want, 'let-compose')
            d = subs = None
            site = 'let-compose'
        elif k == 12 and 'cube' in feat:
            if 'cube-signs' in feat:
                d = {v: rng.random() < 0.5 for v in
                     rng.sample(names, rng.randint(0, len(names)))}
                arg = d
            else:
                d = {v: True for v in
                     rng.sample(names, rng.randint(0, len(names)))}
                arg = list(d)
            self.hold(bdd.cube(arg), sp.cube_table(d), 'cube')
            site = 'cube'
        elif k == 13 and 'support' in feat:
            a, ta = self.pick()
            if bdd.support(a) != sp.support(ta) or a.support != \
                    sp.support(ta):
                raise Violation(self.P + 'support', 'wrong-support', None)
            if 'count' in feat:
                nv = len(sp.support(ta)) + rng.randint(0, 2)
                if bdd.count(a, nv) != sp.count(ta, nv):
                    raise Violation(self.P + 'count', 'wrong-count',
                                    (bdd.count(a, nv), sp.count(ta, nv)))
            if 'pick' in feat:
                u = 0
                for m_ in bdd.pick_iter(a):
                    u |= sp.cube_table(m_)
                if u != ta:
                    raise Violation(self.P + 'pick_iter',
                                    'models-not-covered', None)
                p = bdd.pick(a)
                if (p is None) != (ta == 0):
                    raise Violation(self.P + 'pick',
                                    'none-iff-false-violated', p)
            site = 'queries'
        elif k == 14 and 'to_expr' in feat:
            a, ta = self.pick()
            s = bdd.to_expr(a)
            if formula.meaning(s, sp) != ta:
                raise Violation(self.P + 'to_expr',
                                'text-means-other-function', s)
            self.hold(bdd.add_expr(s), ta, 'add_expr')
            site = 'to_expr'
        elif k == 15 and 'traverse' in feat:
            a, ta = self.pick()
            if a.var is not None:
                lo, hi = a.low, a.high
                lvl, lo2, hi2 = bdd.succ(a)
                # the wrapper's own convention decides what low/high
                # denote (Sylvan transfers the complement mark); what is
                # judged is the expansion through succ and the ledger
                self.hold(lo, None, 'low')
                self.hold(hi, None, 'high')
                self.hold(lo2, None, 'succ')
                self.hold(hi2, None, 'succ')
                m = sp.var(a.var)
                t2 = (m & self.pool[-1][1]) | (sp.NOT(m) & self.pool[-2][1])
                if a.negated:
                    t2 = sp.NOT(t2)
                if t2 != ta:
                    raise Violation(self.P + 'succ',
                                    'expansion-gives-other-function', None)
                lo = hi = lo2 = hi2 = None
            site = 'traverse'
        elif k == 16:
            a, ta = self.pick()
            sym = rng.choice(UNOPS if self.be.name != 'buddy'
                             else ('!', 'not'))
            r = bdd.apply(sym, a) if rng.random() < 0.5 else ~a
            self.hold(r, sp.NOT(ta), 'apply-not')
            site = 'not'
        elif k == 17:
            (a, ta), (b, tb) = self.pick(), self.pick()
            kk = rng.randrange(4 if 'implies-equiv' in feat else 2)
            if kk == 0:
                r, want = a & b, ta & tb
            elif kk == 1:
                r, want = a | b, ta | tb
            elif kk == 2:
                r, want = a.implies(b), sp.IMPLIES(ta, tb)
            else:
                r, want = a.equiv(b), sp.EQUIV(ta, tb)
            self.hold(r, want, 'Function-operators')
            site = 'fop'
        elif k == 18 and 'copy' in feat:
            a, ta = self.pick()
            other = c.BDD()
            other.declare(*self.names)
            o = bdd.copy(a, other) if rng.random() < 0.5 else \
                c.copy_bdd(a, other)
            if self.be.tt(o, sp) != ta:
                raise Violation(self.P + 'copy',
                                'copy-denotes-other-function', None)
            back = other.copy(o, bdd)
            o = None
            self.hold(back, ta, 'copy')
            other = None
            site = 'copy'
        elif k == 19 and 'incref' in feat:
            e = self.pick()
            bdd.incref(e[0])
            r = rng.random()
            if r < 0.4:
                bdd.decref(e[0], recursive=rng.random() < 0.5)
            elif r < 0.7:
                # the documented escape hatch used by dd._copy: release
                # one library reference, leave the handle's own count
                bdd.decref(e[0], recursive=rng.random() < 0.5,
                           _direct=True)
                e[0]._ref -= 1
            e = None
            site = 'incref-decref'
        elif k == 24 and 'json' in feat:
            # (constant roots: dd._copy writes the pointer-based id of a
            # dd.cudd constant into `roots` without a node line, and the
            # load fails - a dump/load matter outside this property)
            es = [e for e in (self.pick() for _ in range(rng.randint(1, 3)))
                  if 0 < e[1] < sp.full]
            fn = f'c19_{os.getpid()}.json'
            if not es:
                fn = None
            back = []
            try:
                if fn:
                    bdd.dump(fn, [e[0] for e in es])
                    back = bdd.load(fn)
            finally:
                if fn and os.path.exists(fn):
                    os.remove(fn)
            for e, f in zip(es, back):
                self.hold(f, e[1], 'load-json')
            es = back = e = f = None
            site = 'json'
        elif k == 20 and 'rejected' in feat:
            # rejected calls must not leak temporaries; they run in
            # their own frames, which are dead (and can be cleared) when
            # the ledger is compared
            self._rejected()
            # a failed parse leaves operands on the parser's stack until
            # the next parse begins (not a wrapper method: not judged)
            bdd.add_expr('TRUE')
            _clear_leaked_tracebacks(self.ctx)
            site = 'rejected-calls'
        elif k == 21 and 'reorder' in feat:
            if rng.random() < 0.5:
                bdd.reorder()
            else:
                o = names[:]
                rng.shuffle(o)
                bdd.reorder({v: i for i, v in enumerate(o)})
                if bdd.var_levels != {v: i for i, v in enumerate(o)}:
                    raise Violation(self.P + 'reorder', 'order-not-reached',
                                    bdd.var_levels)
            site = 'reorder'
        elif k == 22 and 'sylvan-module' in feat:
            (a, ta), (b, tb) = self.pick(), self.pick()
            qv = set(rng.sample(names, rng.randint(0, 2)))
            kk = rng.randrange(3)
            if kk == 0:
                r, want = c.and_exists(a, b, qv), sp.exists(ta & tb, qv)
            elif kk == 1:
                r, want = c.or_forall(a, b, qv), sp.forall(ta | tb, qv)
            else:
                r = c.restrict(a, b)
                got = self.be.tt(r, sp)
                if tb and (got & tb) != (ta & tb):
                    raise Violation(self.P + 'restrict',
                                    'differs-inside-the-care-set', None)
                want = None
            self.hold(r, want, 'module-functions')
            site = 'module-functions'
        elif k == 23 and 'buddy-module' in feat:
            (a, ta), (b, tb) = self.pick(), self.pick()
            qv = rng.sample(names, rng.randint(0, 2))
            kk = rng.randrange(3)
            if kk == 0:
                r = c.and_abstract(a, b, qv, bdd)
                want = sp.exists(ta & tb, qv)
            elif kk == 1:
                r = c.or_abstract(a, b, qv, bdd)
                want = sp.forall(ta | tb, qv)
            else:
                vs = rng.sample(names, 2)
                d = {vs[0]: vs[1]}
                # BuDDy's replace is a renaming onto a variable the
                # function does not depend on
                if sp.depends(ta, vs[1]):
                    d = dict()
                r = c.rename(a, bdd, d) if d else ~ ~a
                want = sp.rename(ta, d)
            self.hold(r, want, 'module-functions')
            site = 'module-functions'
        if site is None:
            # drop handles (the last reference of a node dies here)
            for _ in range(rng.randint(1, 3)):
                if len(self.pool) > 1:
                    e = self.pool.pop(rng.randrange(len(self.pool)))
                    # a handle whose _ref was raised by incref is
                    # released by decref down to 1 first
                    while self.be.nrefs(e[0]) > 1:
                        bdd.decref(e[0])
                    self.ctx.counters['handles_released'] += 1
                    if rng.random() < 0.3:
                        # the handle dies inside a reference cycle that
                        # is younger than it: the cyclic collector
                        # clears and finalises it (`check` collects)
                        holder = dict(f=e[0])
                        holder['self'] = holder
                        holder = None
                        self.ctx.counters['handles_released_in_cycles'] += 1
                    e = None
            site = 'drop'
        self.site = site
        self.ctx.counters['history_steps'] += 1
        self.ctx.counters[f'step_{self.be.name}_{site}'] += 1
        self.check(site)


def history(ctx, spec, be):
    rng = ctx.rng('history', be.name, spec['sub'])
    h = Hist(ctx, be, rng, spec['n'])
    for k in range(spec['steps']):
        ok, _ = ctx.guard(be.name + '.' + h.site, h.step,
                          case=dict(spec=spec, step=k, last=h.site))
        if not ok:
            break
        ctx.case(True, 'hist', be.name, spec['sub'], k,
                 tuple(sorted(t for f, t in h.pool))[:12])
    if be.name == 'cudd':
        ctx.counters['order_rotations'] += be.stats[3]
    ctx.sample(dict(kind='history', backend=be.name, n=spec['n'],
                    steps=spec['steps'], live_handles=len(h.pool)))
    for e in h.pool:
        while be.nrefs(e[0]) > 1:
            h.bdd.decref(e[0])
    e = None
    ctx.counters['handles_released'] += len(h.pool)
    del h.pool[:]
    _clear_leaked_tracebacks(ctx)
    mgrs = [h.bdd]
    h.bdd = None
    _shutdown(ctx, be, mgrs)


def run_shard(ctx, spec):
    def run():
        be = Backend(spec['backend'])
        try:
            fn = dict(ops=ops, ite=ite_sweep, history=history)[spec['kind']]
            fn(ctx, spec, be)
        finally:
            be.close()
    try:
        run()
    except cbuild.BuildError as e:
        # the wrapper of the working tree does not compile any more
        ctx.violation('build', 'wrapper-does-not-compile', str(e)[-1500:])
    except Violation as v:
        ctx.violation(v.site, v.symptom, v.detail, spec)
    except common.Inconclusive:
        raise
    except Exception as e:
        import traceback
        ctx.violation(spec['kind'], 'unexpected-exception:' +
                      type(e).__name__, traceback.format_exc(limit=8), spec)
