"""C10 - count, pick, pick_iter, support describe exactly the models."""
import itertools
import logging

from vf.common import Violation
from vf.sweep import AllFunctions, subsets, orders

RULE = (
    'all functions of <=3 variables (quick: plus sampled 4-variable ones; '
    'thorough: all 65536 of 4 variables) with one extra declared, unused '
    'variable and without it, under 3 (quick) / all orders: support and is_essential for '
    'every declared name; count(u, n) for n = |support|..|support|+3 and '
    'refusal for n < |support|; pick_iter for the default and for every '
    'care set that is a subset of the declared names, below or above the '
    'support (every yielded assignment is a cube inside the '
    'models, mentions every care variable, cubes are pairwise disjoint and '
    'cover the models; with the default exactly the models over the '
    'support, count(u) many); pick is one of them or None exactly for '
    'false; both dd.bdd and dd.autoref (incl. Function.pick/count/support).'
    ' Histories: the same queries on every held reference after every step '
    'of random histories (operations, drops, collections with re-use of node '
    'numbers, swaps, sifting, reordering, declarations and removal of unused '
    'variables above and below the supports). '
    'Non-trivial: non-constant function; enumerated cases are distinct by '
    'construction, history cases by (manager state, function).')


def plan(tier, seed):
    specs = []
    for n in (1, 2, 3):
        for spare in (('z',), ()):
            names = tuple('abc'[:n]) + spare
            os_ = orders(names, tier, seed, 3 if n == 3 else 2)
            for k, o in enumerate(dict.fromkeys(os_)):
                specs.append(dict(kind='all', names=names, order=o,
                                  sample=None, hashseed=k))
    for k, o in enumerate(dict.fromkeys(
            orders(('a', 'b', 'c', 'd'), tier, seed, 4))):
        specs.append(dict(kind='all', names=('a', 'b', 'c', 'd'), order=o,
                          sample=None if tier == 'thorough' else 8000,
                          sub=k, hashseed=k))
    n4 = ('a', 'b', 'c', 'd', 'z')
    if tier == 'thorough':
        os_ = orders(n4, 'quick', seed, 30)
        for k, o in enumerate(dict.fromkeys(os_)):
            specs.append(dict(kind='all', names=n4, order=o, sample=None,
                              lo=(k % 2) * 32768, hi=(k % 2 + 1) * 32768,
                              hashseed=k))
    else:
        for k, o in enumerate(dict.fromkeys(orders(n4, tier, seed, 6))):
            specs.append(dict(kind='all', names=n4, order=o, sample=2500,
                              sub=k, hashseed=k))
    for k in range(12 if tier == 'quick' else 64):
        specs.append(dict(kind='history', sub=k, n=2 + k % 3,
                          steps=250 if tier == 'quick' else 1500,
                          hashseed=k))
    # instances beyond truth tables (12-70 variables), see vf/big.py
    from vf import big
    specs.extend(big.specs(tier, seed, 'C10'))
    meta = dict(
        rule=RULE,
        require=['big_histories', 'huge_histories', 'history_queries', 'undeclare_calls',
                 'support_results', 'count_results', 'count_refusals',
                 'pick_iter_results', 'pick_results', 'assignments_checked',
                 'autoref_results'],
        assumptions=['truth-table model in vf/oracle.py'],
        timeout=1500 if tier == 'quick' else 5400)
    return specs, meta


def check_function(ctx, A, ab, _a, t, r, care_sets, rng):
    bdd, sp = A.bdd, A.sp
    sup = sp.support(t)
    k = len(sup)
    info = dict(u=sp.fmt(t), order=A.order)
    # support / is_essential
    got = bdd.support(r)
    ctx.counters['support_results'] += 1
    if got != sup:
        raise Violation('support', 'wrong-support',
                        dict(info, got=sorted(got), want=sorted(sup)))
    lv = bdd.support(r, as_levels=True)
    if lv != {bdd.vars[v] for v in sup}:
        raise Violation('support', 'wrong-support-levels', dict(info, got=lv))
    for v in A.names:
        if bdd.is_essential(r, v) != (v in sup):
            raise Violation('is_essential', 'disagrees-with-support',
                            dict(info, var=v))
    if bdd.is_essential(r, 'undeclared_name'):
        raise Violation('is_essential', 'true-for-undeclared', info)
    # count
    models = sp.popcount(t) >> (sp.n - k)   # over the support
    for extra in range(4):
        c = bdd.count(r, k + extra) if extra % 2 else \
            bdd.count(u=r, nvars=k + extra)
        ctx.counters['count_results'] += 1
        if c != models << extra:
            raise Violation('count', 'wrong-count',
                            dict(info, n=k + extra, got=c,
                                 want=models << extra))
    c = bdd.count(r)
    if c != models:
        raise Violation('count', 'wrong-count',
                        dict(info, n=None, got=c, want=models))
    for less in range(k):
        try:
            c = bdd.count(r, less)
        except ValueError:
            ctx.counters['count_refusals'] += 1
        except Exception as e:
            raise Violation('count', 'refusal-with-unexpected-exception',
                            dict(info, n=less, exc=repr(e)))
        else:
            raise Violation('count', 'too-few-variables-accepted',
                            dict(info, n=less, got=c))
    # pick_iter / pick
    for care in care_sets:
        cs = None if care is None else set(care)
        judged = True
        # `care_vars` is declared as a set: only re-iterable collections
        # (a one-shot iterator is outside the declared domain)
        form = (t + len(care or ())) % 4
        arg = cs if cs is None or form == 0 else (
            list(cs) if form == 1 else frozenset(cs) if form == 2
            else {v: 0 for v in cs}.keys())
        ctx.counters[f'care_vars_form_{form}'] += 1
        ms = list(bdd.pick_iter(r, arg) if form % 2 else
                  bdd.pick_iter(u=r, care_vars=arg))
        ctx.counters['pick_iter_results'] += 1
        want_vars = sup if cs is None else cs
        _judge_models(ctx, sp, t, ms, want_vars, exact=(cs is None),
                      info=dict(info, care=care))
        if cs is None and len(ms) != models:
            raise Violation('pick_iter', 'default-not-count-many',
                            dict(info, got=len(ms), want=models))
        p = bdd.pick(r, cs)
        ctx.counters['pick_results'] += 1
        if (p is None) != (t == 0):
            raise Violation('pick', 'none-iff-false-violated',
                            dict(info, care=care, got=p))
        if p is not None and judged:
            if p not in ms:
                raise Violation('pick', 'not-one-of-pick_iter',
                                dict(info, care=care, got=p))
    # dd.autoref entry points (same manager, wrapped)
    if rng.random() < 0.25:
        u = _a.Function(r, ab)
        ctx.counters['autoref_results'] += 1
        if u.support != sup or ab.support(u) != sup:
            raise Violation('autoref.support', 'wrong-support', info)
        if u.count() != models or ab.count(u, k + 1) != 2 * models:
            raise Violation('autoref.count', 'wrong-count', info)
        ms = list(ab.pick_iter(u))
        _judge_models(ctx, sp, t, ms, sup, exact=True,
                      info=dict(info, via='autoref'))
        p = u.pick()
        if (p is None) != (t == 0) or (p is not None and p not in ms):
            raise Violation('autoref.pick', 'wrong-pick', dict(info, got=p))
        del u


def _judge_models(ctx, sp, t, ms, want_vars, exact, info):
    """Each assignment: a cube inside the models mentioning every wanted
    variable; cubes pairwise disjoint; union == models."""
    union = 0
    for m in ms:
        ctx.counters['assignments_checked'] += 1
        keys = set(m)
        if not want_vars <= keys:
            raise Violation('pick_iter', 'care-variable-missing',
                            dict(info, assignment=m))
        if exact and keys != want_vars:
            raise Violation('pick_iter', 'default-mentions-other-variables',
                            dict(info, assignment=m))
        for v, b in m.items():
            if v not in sp.index or not isinstance(b, bool):
                raise Violation('pick_iter', 'malformed-assignment',
                                dict(info, assignment=m))
        cube = sp.cube_table(m)
        if cube & ~t & sp.full:
            raise Violation('pick_iter', 'assignment-not-a-model',
                            dict(info, assignment=m))
        if cube & union:
            raise Violation('pick_iter', 'assignments-overlap',
                            dict(info, assignment=m))
        union |= cube
    if union != t:
        raise Violation('pick_iter', 'models-not-covered',
                        dict(info, covered=sp.fmt(union)))


def all_(ctx, spec):
    import dd.autoref as _a
    names = tuple(spec['names'])
    order = tuple(spec['order'])
    rng = ctx.rng('all', names, order)
    real = [v for v in names if v != 'z']
    nbits = 1 << len(real)
    full_real = (1 << nbits) - 1
    from vf.oracle import Space
    sp_real = Space(real)
    sp = Space(names)
    if spec['sample'] is None:
        lo, hi = spec.get('lo', 0), spec.get('hi', full_real + 1)
        hi = min(hi, full_real + 1)
        tabs = range(lo, hi)
        ctx.exhaustive = True
    else:
        tabs = sorted({rng.getrandbits(nbits) for _ in range(spec['sample'])}
                      | {0, full_real})
    tables = [sp_real.lift(t, sp) for t in tabs]
    A = AllFunctions(names, order, tables)
    ab = _a.BDD()
    ab._bdd = A.bdd
    ab.vars = A.bdd.vars
    all_care = [None] + [c for c in subsets(names)]
    logging.getLogger('dd.bdd').setLevel(logging.ERROR)
    bad = 0
    for t in tables:
        r = A.R[t]
        if len(names) <= 4:
            cares = all_care
        else:
            cares = [None] + rng.sample(all_care[1:], 6) + [names]
        ok, _ = ctx.guard('query', check_function, ctx, A, ab, _a, t, r,
                          cares, rng, case=dict(t=t, order=order))
        ctx.counters['evaluations'] += 1
        if 0 < t < sp.full:
            ctx.distinct_enum += 1
        if not ok:
            bad += 1
            if bad > 3:
                break
    ctx.sample(dict(kind='all', names=names, order=order,
                    functions=len(tables),
                    care_sets_per_function=len(all_care)
                    if len(names) <= 4 else 8))


def history(ctx, spec):
    """The same queries on the references of a manager with a history:
    after every step (operations, drops, collections with re-use of node
    numbers, swaps, sifting, reordering, declarations, removal of unused
    variables - also ones above the support, which renumbers levels)
    every held reference is queried again."""
    import dd.autoref as _a
    from vf.world import World, View, node_of
    rng = ctx.rng('history', spec['sub'])
    logging.getLogger('dd.bdd').setLevel(logging.ERROR)
    real = [f'x{i}' for i in range(spec['n'])]
    spare = ['s0', 's1']
    w = World(ctx, rng, real + spare, kind='bdd', strict=True)
    w.build_names = set(real)
    menu = dict(build=6, apply=6, ite=2, quantify=2, let_const=1,
                let_rename=1, var=1, drop=6, gc=3, swap=3, sift=1,
                reorder_to=2, declare=1, undeclare=4, **{'not': 1})
    for k in range(spec['steps']):
        ok, res = ctx.guard(w.site, w.step, menu, case=dict(
            spec=spec, step=k, tail=[list(map(str, d)) for d in w.log[-6:]]))
        if not ok:
            break
        if not w.pool:
            continue
        V = View(w)
        names = V.names
        care = [None, names] + [tuple(rng.sample(names, rng.randint(
            0, len(names)))) for _ in range(2)]
        pool = w.pool if len(w.pool) <= 6 else rng.sample(w.pool, 6)
        for e in pool:
            ok, _ = ctx.guard('query', check_function, ctx, V, V.ab, _a,
                              e.tt, node_of(e.h), care, rng,
                              case=dict(spec=spec, step=k, t=w.sp.fmt(e.tt),
                                        order=V.order,
                                        tail=[list(map(str, d))
                                              for d in w.log[-6:]]))
            ctx.counters['history_queries'] += 1
            ctx.case(0 < e.tt < w.sp.full, 'history', spec['sub'],
                     w.state_hash(), e.tt)
            if not ok:
                return
    ctx.sample(dict(kind='history', n=spec['n'], steps=spec['steps'],
                    last_steps=[list(map(str, d)) for d in w.log[-5:]]))
    ctx.guard('shutdown', w.finish)


def run_shard(ctx, spec):
    if spec['kind'] == 'big':
        from vf import big
        return ctx.guard('big', big.run, ctx, spec, case=spec)
    fn = dict(all=all_, history=history)[spec['kind']]
    ctx.guard(spec['kind'], fn, ctx, spec, case=spec)
