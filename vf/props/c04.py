"""C04 - `let` performs exact simultaneous substitution."""
import itertools

from vf import monitors
from vf.common import Violation
from vf.oracle import Denoter
from vf.sweep import AllFunctions, orders
from vf.world import World

RULE = (
    'n=3 exhaustive per order: all 256 functions x all 27 partial '
    'assignments (let with bools, cofactor with names or levels, '
    'Function.let); x all 64 variable-to-variable maps incl. non-injective '
    'and swaps (let with names, BDD.rename, dd.bdd.rename); x every single '
    'variable x every one of the 256 replacement functions (196608 '
    'compositions); simultaneous substitution of 2-3 variables by sampled '
    'functions that mention the replaced variables; n=4: all 65536 '
    'functions x sampled substitutions (thorough) or sampled functions '
    '(quick). Oracle: cofactor / simultaneous substitution on truth '
    'tables; the operand keeps its table and count. Non-trivial: the '
    'function depends on a substituted variable; enumerated cases are '
    'distinct by construction, sampled ones by hash.')


def plan(tier, seed):
    specs = []
    n3 = ('a', 'b', 'c')
    o3 = orders(n3, 'thorough', seed, 6) if tier == 'thorough' else \
        list(dict.fromkeys(orders(n3, tier, seed, 3)))
    for k, o in enumerate(o3):
        specs.append(dict(kind='cof_ren', names=n3, order=o, hashseed=k))
        for v in n3:
            specs.append(dict(kind='compose1', names=n3, order=o, var=v,
                              hashseed=k))
        specs.append(dict(kind='vector', names=n3, order=o, sample=None,
                          hashseed=k))
    n4 = ('a', 'b', 'c', 'd')
    if tier == 'thorough':
        for k, o in enumerate(orders(n4, tier, seed, 24)):
            specs.append(dict(kind='n4', names=n4, order=o, sample=None,
                              per=10, hashseed=k))
    else:
        for k, o in enumerate(dict.fromkeys(orders(n4, tier, seed, 6))):
            specs.append(dict(kind='n4', names=n4, order=o, sample=6000,
                              per=6, sub=k, hashseed=k))
    nh = 96 if tier == 'thorough' else 12
    for k in range(nh):
        specs.append(dict(kind='history', sub=k, n=3 + k % 4,
                          steps=3000 if tier == 'thorough' else 600,
                          auto=(k % 3 == 1), hashseed=k))
    # instances beyond truth tables (12-70 variables), see vf/big.py
    from vf import big
    specs.extend(big.specs(tier, seed, 'C04'))
    meta = dict(
        rule=RULE,
        require=['big_histories', 'huge_histories', 'cofactor_results', 'rename_results', 'compose_results',
                 'vector_results', 'steps', 'function_let_results',
                 'operand_unchanged_checks'],
        assumptions=['truth-table model in vf/oracle.py',
                     'operands and replacement functions held'],
        timeout=1500 if tier == 'quick' else 5400)
    return specs, meta


def _judge(ctx, A, site, got, want, info):
    g = A.tt_of.get(got)
    if g is None:
        g = Denoter(A.bdd, A.sp)(got)
    if g != want:
        ctx.violation(site, 'wrong-result',
                      dict(info, got=A.sp.fmt(g), want=A.sp.fmt(want),
                           order=A.order), case=dict(info, order=A.order))
        return False
    return True


def _autoref(A):
    import dd.autoref as _a
    ab = _a.BDD()
    ab._bdd = A.bdd
    ab.vars = A.bdd.vars
    return _a, ab


def cof_ren(ctx, spec):
    names = tuple(spec['names'])
    order = tuple(spec['order'])
    A = AllFunctions(names, order)
    bdd, sp = A.bdd, A.sp
    _a, ab = _autoref(A)
    import dd.bdd as _b
    refs_before = dict(bdd._ref)
    bad = 0
    # --- constants
    parts = []
    for vals in itertools.product((None, False, True), repeat=len(names)):
        parts.append({v: b for v, b in zip(names, vals) if b is not None})
    n = nt = 0
    for d in parts:
        dl = {bdd.vars[v]: b for v, b in d.items()}
        for k, (t, r) in enumerate(A.R.items()):
            want = sp.cofactor(t, d)
            how = (k + len(d)) % 4
            if not d:
                got = bdd.let(d, r)
            elif how == 0:
                got = bdd.let(d, r)
            elif how == 1:
                got = bdd.cofactor(r, d)
            elif how == 2:
                got = bdd.cofactor(r, dl)
            else:
                u = _a.Function(r, ab)
                g = u.let(**d)
                got = g.node
                del u, g
                ctx.counters['function_let_results'] += 1
            n += 1
            nt += want != t
            if not _judge(ctx, A, 'let-constants', got, want,
                          dict(u=sp.fmt(t), d=d, how=how)):
                bad += 1
                if bad > 3:
                    return
    ctx.counters['cofactor_results'] += n
    # --- names
    maps = []
    for vals in itertools.product((None,) + names, repeat=len(names)):
        maps.append({v: b for v, b in zip(names, vals) if b is not None})
    for d in maps:
        for k, (t, r) in enumerate(A.R.items()):
            want = sp.rename(t, d)
            how = (k + len(d)) % 4
            if not d or how == 0:
                got = bdd.let(d, r)
            elif how == 1:
                got = bdd.rename(r, d)
            elif how == 2:
                got = _b.rename(r, bdd, d)
            else:
                u = _a.Function(r, ab)
                g = u.let(**d)
                got = g.node
                del u, g
                ctx.counters['function_let_results'] += 1
            n += 1
            nt += want != t
            ctx.counters['rename_results'] += 1
            if not _judge(ctx, A, 'let-rename', got, want,
                          dict(u=sp.fmt(t), d=d, how=how)):
                bad += 1
                if bad > 3:
                    return
    ctx.counters['evaluations'] += n
    ctx.distinct_enum += nt
    ctx.exhaustive = True
    _unchanged(ctx, A, refs_before)
    ctx.sample(dict(kind='cof_ren', order=order, partial_assignments=27,
                    renamings=64, functions=256))


def _unchanged(ctx, A, refs_before):
    """Operands keep their tables; counts of held nodes are unchanged
    (new unreferenced result nodes may exist)."""
    den = Denoter(A.bdd, A.sp)
    for t, r in A.R.items():
        if den(r) != t:
            raise Violation('let', 'operand-changed', (A.sp.fmt(t), r))
    monitors.check_structure(A.bdd)
    ext = dict()
    for r in A.R.values():
        ext[abs(r)] = ext.get(abs(r), 0) + 1
    monitors.check_ledger(A.bdd, ext)
    ctx.counters['operand_unchanged_checks'] += len(A.R)


def compose1(ctx, spec):
    names = tuple(spec['names'])
    order = tuple(spec['order'])
    var = spec['var']
    A = AllFunctions(names, order)
    bdd, sp = A.bdd, A.sp
    refs_before = dict(bdd._ref)
    n = nt = bad = 0
    items = list(A.R.items())
    for t, r in items:
        dep = sp.depends(t, var)
        lo, hi = sp.cof(t, var, 0), sp.cof(t, var, 1)
        for g, rg in items:
            if (t + g) % 2:
                got = bdd.let({var: rg}, r)
            else:
                got = bdd.compose(r, {var: rg})
            want = (g & hi) | ((sp.full ^ g) & lo)
            n += 1
            nt += dep
            if A.tt_of.get(got, -1) != want:
                if not _judge(ctx, A, 'let-compose', got, want,
                              dict(u=sp.fmt(t), var=var, g=sp.fmt(g))):
                    bad += 1
                    if bad > 3:
                        return
        if t % 64 == 63:
            bdd.collect_garbage()
    ctx.counters['evaluations'] += n
    ctx.counters['compose_results'] += n
    ctx.distinct_enum += nt
    ctx.exhaustive = True
    _unchanged(ctx, A, refs_before)
    ctx.sample(dict(kind='compose1', order=order, var=var,
                    compositions=n))


def vector(ctx, spec, A=None, N=None):
    names = tuple(spec['names'])
    order = tuple(spec['order'])
    rng = ctx.rng('vector', names, order)
    A = A or AllFunctions(names, order)
    bdd, sp = A.bdd, A.sp
    _a, ab = _autoref(A)
    N = N or (20000 if ctx.tier == 'quick' else 300000)
    ts = A.tables
    for _ in range(N):
        t = rng.choice(ts)
        k = rng.randint(2, min(3, len(names)))
        vs = rng.sample(names, k)
        gs = {v: rng.choice(ts) for v in vs}
        want = sp.substitute(t, gs)
        d = {v: A.R[g] for v, g in gs.items()}
        if rng.random() < 0.7:
            got = bdd.let(d, A.R[t])
        elif rng.random() < 0.5:
            got = bdd.compose(A.R[t], d)
        else:
            u = _a.Function(A.R[t], ab)
            fs = {v: _a.Function(x, ab) for v, x in d.items()}
            g = ab.let(fs, u)
            got = g.node
            del u, fs, g
        ctx.case(bool(sp.support(t) & set(vs)), 'vec', order, t,
                 tuple(sorted(gs.items())))
        ctx.counters['vector_results'] += 1
        if not _judge(ctx, A, 'let-compose-vector', got, want,
                      dict(u=sp.fmt(t),
                           subs={v: sp.fmt(g) for v, g in gs.items()})):
            return
    ctx.sample(dict(kind='vector', order=order, sampled=N))


def n4(ctx, spec):
    names = tuple(spec['names'])
    order = tuple(spec['order'])
    rng = ctx.rng('n4', order)
    tables = None
    if spec['sample'] is not None:
        tables = sorted({rng.getrandbits(16) for _ in range(spec['sample'])}
                        | {0, 65535})
    A = AllFunctions(names, order, tables)
    bdd, sp = A.bdd, A.sp
    import dd.bdd as _b
    refs_before = dict(bdd._ref)
    ts = A.tables
    per = spec['per']
    bad = 0
    for t in ts:
        r = A.R[t]
        for _ in range(per):
            kind = rng.randrange(3)
            k = rng.randint(1, 3)
            vs = rng.sample(names, k)
            if kind == 0:
                d = {v: rng.random() < 0.5 for v in vs}
                want = sp.cofactor(t, d)
                got = bdd.let(d, r)
                site = 'let-constants'
                ctx.counters['cofactor_results'] += 1
            elif kind == 1:
                d = {v: rng.choice(names) for v in vs}
                want = sp.rename(t, d)
                got = bdd.let(d, r)
                site = 'let-rename'
                ctx.counters['rename_results'] += 1
            else:
                gs = {v: rng.choice(ts) for v in vs}
                d = {v: A.R[g] for v, g in gs.items()}
                want = sp.substitute(t, gs)
                got = bdd.let(d, r)
                site = 'let-compose' if k == 1 else 'let-compose-vector'
                ctx.counters['compose_results' if k == 1
                             else 'vector_results'] += 1
                d = {v: sp.fmt(g) for v, g in gs.items()}
            ctx.case(bool(sp.support(t) & set(vs)), 'n4', order, t, kind,
                     tuple(sorted(d.items())))
            if not _judge(ctx, A, site, got, want,
                          dict(u=sp.fmt(t), d=d)):
                bad += 1
                if bad > 3:
                    return
        if spec['sample'] is None and t % 4096 == 4095:
            bdd.collect_garbage()
    _unchanged(ctx, A, refs_before)
    ctx.sample(dict(kind='n4', order=order, functions=len(ts), per=per))


def history(ctx, spec):
    rng = ctx.rng('history', spec['sub'])
    names = [f'x{i}' for i in range(spec['n'])]
    kind = 'autoref' if spec['auto'] else 'bdd'
    reg = None
    if kind == 'autoref':
        reg = monitors.HandleRegistry()
        reg.install()
    dynamic = spec['sub'] % 2 == 1
    if dynamic:
        import dd.bdd as _b
        _b.REORDER_STARTS = 5 + spec['sub'] % 7
        ctx.counters['dynamic_reordering_histories'] += 1
    w = World(ctx, rng, names, kind=kind, strict=True, registry=reg,
              reordering=dynamic)
    menu = dict(build=5, let_const=8, let_rename=8, let_compose=10,
                apply=3, drop=4, gc=3, swap=3 if kind == 'bdd' else 0,
                sift=1, reorder_to=1)
    if dynamic:
        menu.update(rearm=4, swap=0, sift=0, reorder_to=0)
    for k in range(spec['steps']):
        ok, res = ctx.guard(w.site, w.step, menu, case=dict(
            spec=spec, step=k, tail=[list(map(str, d)) for d in w.log[-6:]]))
        if not ok:
            return
        desc, den = res
        if desc[0].startswith('let'):
            ctx.case(True, 'hist', spec['n'], desc, w.pool[-1].tt,
                     tuple(sorted(w.raw.vars.items())))
    ctx.sample(dict(kind='history', n=spec['n'], manager=kind,
                    last_steps=[list(map(str, d)) for d in w.log[-5:]]))
    ctx.guard('shutdown', w.finish)
    if reg:
        reg.uninstall()


def run_shard(ctx, spec):
    if spec['kind'] == 'big':
        from vf import big
        return ctx.guard('big', big.run, ctx, spec, case=spec)
    fn = dict(cof_ren=cof_ren, compose1=compose1, vector=vector, n4=n4,
              history=history)[spec['kind']]
    ctx.guard(spec['kind'], fn, ctx, spec, case=spec)
