"""C06 - garbage collection frees exactly the unreachable nodes; counts
stay exact."""
import itertools

from vf import monitors
from vf.common import Violation, EVENTS
from vf.oracle import Space
from vf.world import World, node_of

RULE = (
    'histories on dd.bdd managers with the harness as the only holder of '
    'references (ledger). Exhaustive: every sequence of length <= L over '
    'an alphabet of 11 steps {make f, make g, op on the last two (held), '
    'op (not held), hold last again, release oldest, collect, collect '
    'rooted at a fresh unreferenced result, swap(0,1), swap(1,2), sift} '
    'on a 3-variable manager, for several (f, g) pairs (L=4 quick, L=5/6 '
    'thorough); random histories of 300-2000 steps over 3-6 variables '
    'with every operation kind, a third of them with dynamic reordering '
    'enabled at a tiny threshold (reorderings, each starting with a '
    'collection, that the library begins by itself in the middle of '
    'operations on held operands), and with releases at count zero (a '
    'documented no-op: warning, no effect). After every step: count == in-edges + '
    'ledger for every node (M4), no held node or descendant missing, '
    'reduced/ordered/unique (M1), cache entries mention only stored nodes '
    'and keep the meaning they had when first seen (M5 temporal), held '
    'references keep table and number (M7); after every full collection '
    'the stored set == reachable from the ledger; no "count already 0" '
    'warning from inside the library. Non-trivial: the history frees at '
    'least one node or re-uses a node number; distinct by sequence '
    '(exhaustive part) or by hash of the manager state (random part).')

FG = [(0b11101010, 0b10010110), (0b10000000, 0b01111111),
      (0b11001010, 0b00111100), (0b10101100, 0b11100001),
      (0b00010111, 0b01101001), (0b11111110, 0b10001000),
      (0b01000010, 0b10111101), (0b00110101, 0b11010100)]


def plan(tier, seed):
    specs = []
    L = 4 if tier == 'quick' else 5
    npairs = 4 if tier == 'quick' else 8
    for p in range(npairs):
        for first in range(11):
            specs.append(dict(kind='exh', pair=(p + seed) % len(FG),
                              first=first, L=L, hashseed=p))
    if tier == 'thorough':
        # one pair at L=6, split by the first two steps
        for first in (0, 2, 5):
            for second in range(11):
                specs.append(dict(kind='exh', pair=seed % len(FG),
                                  first=first, second=second, L=6,
                                  hashseed=first))
    nr = 128 if tier == 'thorough' else 12
    for k in range(nr):
        specs.append(dict(kind='random', sub=k, n=3 + k % 4,
                          steps=5000 if tier == 'thorough' else 400,
                          dynamic=(k % 3 == 2), hashseed=k))
    # instances beyond truth tables (12-70 variables), see vf/big.py
    from vf import big
    specs.extend(big.specs(tier, seed, 'C06'))
    meta = dict(
        rule=RULE,
        require=['big_histories', 'huge_histories', 'sequences', 'steps', 'quiescent_checks', 'gc_calls',
                 'gc_freed_nodes', 'node_numbers_reused',
                 'gc_rooted_calls', 'swap_calls', 'cache_entries_watched',
                 'dynamic_history_steps', 'releases_at_count_zero'],
        assumptions=['the harness is the only holder of external '
                     'references (its ledger is the external count)',
                     'truth-table denotation from BDD._succ'],
        timeout=1500 if tier == 'quick' else 5400)
    return specs, meta


class Mini:
    """The 11-step alphabet on a 3-variable World."""

    def __init__(self, ctx, pair):
        self.ctx = ctx
        self.f, self.g = FG[pair]
        self.w = None
        self.freed = 0
        self.reused = 0

    def fresh(self):
        import random
        self.w = World(self.ctx, random.Random(0), ('a', 'b', 'c'),
                       kind='bdd', order=['a', 'b', 'c'], strict=False,
                       watch_cache=True)
        self.ever = set()
        self.nop = 0

    def step(self, k):
        w = self.w
        raw = w.raw
        before = set(raw._succ)
        n = len(w.pool)
        if k == 0:
            w.accept('find_or_add', w.build(self.f), self.f, strict=True)
        elif k == 1:
            w.accept('find_or_add', w.build(self.g), self.g, strict=True)
        elif k in (2, 3):
            if n < 2:
                self.nop += 1
                return
            a, b = w.pool[-1], w.pool[-2]
            op = ('xor', 'and', 'or', '=>')[(n + self.nop) % 4]
            r = raw.apply(op, a.h, b.h)
            want = getattr(w.sp, {'xor': 'XOR', 'and': 'AND', 'or': 'OR',
                                  '=>': 'IMPLIES'}[op])(a.tt, b.tt)
            w.accept('apply', r, want, hold=(k == 2), strict=True)
        elif k == 4:
            if not n:
                self.nop += 1
                return
            w.hold(w.pool[-1].h, w.pool[-1].tt)
        elif k == 5:
            if not n:
                self.nop += 1
                return
            w.drop(0)
        elif k == 6:
            w.s_gc()
        elif k == 7:
            if n < 1:
                self.nop += 1
                return
            w.s_gc_rooted()
        elif k == 8:
            raw.swap(0, 1)
            self.ctx.counters['swap_calls'] += 1
        elif k == 9:
            raw.swap(raw._level_to_var[2], raw._level_to_var[1])
            self.ctx.counters['swap_calls'] += 1
        elif k == 10:
            w._b.reorder(raw)
            self.ctx.counters['sift_calls'] += 1
        after = set(raw._succ)
        gone = before - after
        self.freed += len(gone)
        new = after - before
        self.reused += len(new & self.ever)
        self.ever |= before | after
        w.check(NAMES[k])
        self.ctx.counters['steps'] += 1
        self.ctx.counters['cache_entries_watched'] += monitors.entries(raw._ite_table)
        _library_warnings(w, NAMES[k])


NAMES = ['make-f', 'make-g', 'op-held', 'op-unheld', 'hold-again',
         'release-oldest', 'collect_garbage', 'collect_garbage(roots)',
         'swap', 'swap', 'reorder']


def _library_warnings(w, site):
    un, ws = EVENTS.drain()
    for cat, msg, fn, line in ws:
        if 'decref' in msg and 'reference count' in msg:
            raise Violation(site, 'library-decref-below-zero', msg)


def exhaustive(ctx, spec):
    m = Mini(ctx, spec['pair'])
    L = spec['L']
    prefix = [spec['first']]
    if 'second' in spec:
        prefix.append(spec['second'])
    nseq = 0
    bad = 0
    # every sequence with this prefix, of every length len(prefix)..L
    for length in range(len(prefix), L + 1):
        for tail in itertools.product(range(11),
                                      repeat=length - len(prefix)):
            seq = prefix + list(tail)
            m.fresh()
            m.freed = m.reused = 0
            ok = True
            for i, k in enumerate(seq):
                ok, _ = ctx.guard(NAMES[k], m.step, k, case=dict(
                    pair=FG[spec['pair']], seq=[NAMES[x] for x in seq],
                    failing_step=i))
                if not ok:
                    break
            if ok:
                ok, _ = ctx.guard('shutdown', m.w.finish, case=dict(
                    pair=FG[spec['pair']], seq=[NAMES[x] for x in seq]))
            nseq += 1
            ctx.counters['evaluations'] += 1
            ctx.counters['sequences'] += 1
            ctx.counters['gc_freed_nodes_exh'] += m.freed
            ctx.counters['node_numbers_reused'] += m.reused
            if m.freed or m.reused:
                ctx.distinct_enum += 1
            if not ok:
                bad += 1
                if bad > 3:
                    return
    ctx.exhaustive = True
    ctx.sample(dict(kind='exhaustive', pair=[bin(x) for x in FG[spec['pair']]],
                    prefix=[NAMES[x] for x in prefix], max_len=L,
                    sequences=nseq))


def random_(ctx, spec):
    rng = ctx.rng('random', spec['sub'])
    names = [f'x{i}' for i in range(spec['n'])]
    import dd.bdd as _b
    dynamic = spec.get('dynamic', False)
    old_starts = _b.REORDER_STARTS
    if dynamic:
        # reorderings (each begins with a collection) that the library
        # starts by itself in the middle of operations, operands held
        _b.REORDER_STARTS = 4 + spec['sub'] % 5
    try:
        _random(ctx, spec, rng, names, dynamic)
    finally:
        _b.REORDER_STARTS = old_starts


def _random(ctx, spec, rng, names, dynamic):
    w = World(ctx, rng, names, kind='bdd', strict=False, watch_cache=True,
              reordering=dynamic)
    menu = dict(build=6, apply=10, apply_quant=1, ite=5, quantify=3,
                let_const=2, let_rename=2, let_compose=2, cube=1, var=1,
                add_expr=2, dup=3, drop=8, drop_many=2, gc=6, gc_rooted=3,
                swap=4, sift=1, reorder_to=1, pairs=1, clone=1,
                release_at_zero=2, tight=1, **{'not': 1})
    if dynamic:
        # (the rooted-collection step keeps an unreferenced result across
        # another operation, which dynamic reordering may legitimately
        # free: not used here)
        menu.update(rearm=4, clone=0, gc_rooted=0)
    ever = set(w.raw._succ)
    for k in range(spec['steps']):
        before = set(w.raw._succ)
        ok, res = ctx.guard(w.site, w.step, menu, case=dict(
            spec=spec, step=k, tail=[list(map(str, d)) for d in w.log[-8:]]))
        if not ok:
            return
        after = set(w.raw._succ)
        new = after - before
        reused = new & ever
        ctx.counters['node_numbers_reused'] += len(reused)
        ever |= after
        ctx.counters['cache_entries_watched'] += monitors.entries(w.raw._ite_table)
        ok, _ = ctx.guard(w.site, _library_warnings, w, w.site)
        if not ok:
            return
        ctx.case(bool(before - after) or bool(reused), 'rand',
                 spec['sub'], w.state_hash())
    if dynamic:
        ctx.counters['dynamic_history_steps'] += spec['steps']
    ctx.sample(dict(kind='random', n=spec['n'], steps=spec['steps'],
                    dynamic=dynamic,
                    last_steps=[list(map(str, d)) for d in w.log[-6:]]))
    ctx.guard('shutdown', w.finish)


def run_shard(ctx, spec):
    if spec['kind'] == 'big':
        from vf import big
        return ctx.guard('big', big.run, ctx, spec, case=spec)
    fn = dict(exh=exhaustive, random=random_)[spec['kind']]
    ctx.guard(spec['kind'], fn, ctx, spec, case=spec)
