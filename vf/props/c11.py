"""C11 - copying between managers preserves the function by name."""
import collections
import itertools

from vf import monitors
from vf.common import Violation
from vf.oracle import Space, Denoter, build, random_table
from vf.sweep import AllFunctions

RULE = (
    'all 256 functions of 3 variables for every pair of source/target '
    'orders (36), and sampled functions of 4 variables for sampled order '
    'pairs, through BDD.copy (dd.bdd, dd.autoref), dd.bdd.copy_bdd, '
    'dd.autoref.copy_bdd, dd._copy.copy_bdd and copy_bdds_from (one memo '
    'for several roots); targets that are fresh, that declare extra '
    'variables (interleaved), that already hold other nodes with a warm '
    'cache, targets with dynamic reordering enabled and due within a few '
    'nodes, sources with extra unused variables; regular and complemented '
    'roots. Oracle: table of the copy read from the target node table by '
    'variable name == table in the source; equal functions give equal '
    'target references; target M1-M5 with its own ledger; source node '
    'table, counts and order unchanged; copy_vars reproduces vars. '
    'Non-trivial: non-constant function and differing orders; enumerated '
    'cases distinct by construction, sampled by hash.')

ENTRY = ('method', 'module', 'autoref-method', 'autoref-module', '_copy',
         'copy_bdds_from')


# `roots` of copy_bdds_from is documented as an iterable: every form below
# is a legitimate argument
ROOT_FORMS = ('list', 'tuple', 'generator', 'iterator', 'dict_values',
              'map')


def as_form(form, fs):
    if form == 'list':
        return list(fs)
    if form == 'tuple':
        return tuple(fs)
    if form == 'generator':
        return (f for f in fs)
    if form == 'iterator':
        return iter(fs)
    if form == 'dict_values':
        return {i: f for i, f in enumerate(fs)}.values()
    if form == 'map':
        return map(lambda f: f, fs)
    raise ValueError(form)


def plan(tier, seed):
    specs = []
    n3 = ('a', 'b', 'c')
    perms = list(itertools.permutations(n3))
    for k, so in enumerate(perms):
        specs.append(dict(kind='all3', names=n3, src_order=so, hashseed=k))
    ns = 128 if tier == 'thorough' else 12
    for k in range(ns):
        specs.append(dict(kind='sampled', sub=k, n=4 + k % 2,
                          rounds=6000 if tier == 'thorough' else 300,
                          dynamic=(k % 2 == 1), hashseed=k))
    # instances beyond truth tables (12-70 variables), see vf/big.py
    from vf import big
    specs.extend(big.specs(tier, seed, 'C11'))
    meta = dict(
        rule=RULE,
        require=['big_histories', 'huge_histories', 'copies', 'source_unchanged_checks', 'target_checks',
                 'copy_vars_checks', 'targets_with_dynamic_reordering',
                 'copies_after_target_changed',
                 'copy_vars_refusals'] +
                ['entry_' + e for e in ENTRY],
        assumptions=['the target declares every variable in the support '
                     'of the copied function',
                     'truth-table denotation from BDD._succ'],
        timeout=1500 if tier == 'quick' else 5400)
    return specs, meta


def snapshot(bdd):
    return (dict(bdd._succ), dict(bdd._ref), dict(bdd.vars),
            dict(bdd._level_to_var))


class Target:
    """A target manager with its own ledger."""

    def __init__(self, names, order, rng=None, preload=0):
        import dd.bdd as _b
        import dd.autoref as _a
        self._b, self._a = _b, _a
        lv = {v: i for i, v in enumerate(order)}
        if rng is not None:
            keys = list(lv)
            rng.shuffle(keys)
            lv = {v: lv[v] for v in keys}
        self.bdd = _b.BDD(lv)
        self.ab = _a.BDD()
        self.ab._bdd = self.bdd
        self.ab.vars = self.bdd.vars
        self.sp = Space(names)
        self.ext = collections.Counter()
        self.held = []
        self.rng_used = rng is not None
        for _ in range(preload):
            t = random_table(rng, self.sp)
            r = build(self.bdd, t, self.sp)
            self.hold(r, t)
        if preload and len(self.held) >= 2:
            # warm the computed table
            self.bdd.apply('xor', self.held[0][0], self.held[1][0])

    def hold(self, r, t):
        self.bdd.incref(r)
        self.ext[abs(r)] += 1
        self.held.append((r, t))

    def check(self, site):
        try:
            monitors.check_structure(self.bdd)
            monitors.check_order_maps(self.bdd)
            den = monitors.check_canonicity(self.bdd)
            monitors.check_ledger(self.bdd, self.ext)
            monitors.check_ite_table(self.bdd, den)
            monitors.check_held(self.bdd, self.held, den)
        except Violation as v:
            v.site = site
            raise


def do_copy(entry, src, src_ab, u, tgt):
    """Copy reference `u` (int, in dd.bdd manager `src`) into `tgt`
    through the named entry point; returns an int reference."""
    _a, _b = tgt._a, tgt._b
    import dd._copy as _c
    if entry == 'method':
        return src.copy(u, tgt.bdd)
    if entry == 'module':
        return _b.copy_bdd(u, src, tgt.bdd)
    f = _a.Function(u, src_ab)
    try:
        if entry == 'autoref-method':
            g = src_ab.copy(f, tgt.ab)
        elif entry == 'autoref-module':
            g = _a.copy_bdd(f, tgt.ab)
        elif entry == '_copy':
            g = _c.copy_bdd(f, tgt.ab)
        else:
            raise ValueError(entry)
        r = g.node
        # keep the node alive for the caller to hold
        tgt.bdd.incref(r)
        del g
        tgt.pending_decref = r
        return r
    finally:
        del f


def judge(ctx, entry, sp_src, t, src, before, tgt, r, lift, info,
          refs=True):
    ctx.counters['copies'] += 1
    ctx.counters['entry_' + entry] += 1
    got = Denoter(tgt.bdd, tgt.sp)(r)
    want = lift(t)
    if got != want:
        raise Violation('copy', 'copy-denotes-other-function',
                        dict(info, entry=entry, got=tgt.sp.fmt(got),
                             want=tgt.sp.fmt(want)))
    now = snapshot(src)
    if not refs:
        # the harness itself holds source handles at this moment
        now = (now[0], before[1]) + now[2:]
    if now != before:
        raise Violation('copy', 'source-changed', dict(info, entry=entry))
    ctx.counters['source_unchanged_checks'] += 1


def all3(ctx, spec):
    names = tuple(spec['names'])
    so = tuple(spec['src_order'])
    import dd.autoref as _a
    import dd.bdd as _b
    # declared in another order, then reordered to `so`
    decl = tuple(reversed(so)) if spec.get('hashseed', 0) % 2 else so[1:] + so[:1]
    A = AllFunctions(names, decl)
    _b.reorder(A.bdd, {v: i for i, v in enumerate(so)})
    A.order = so
    src = A.bdd
    src_ab = _a.BDD()
    src_ab._bdd = src
    src_ab.vars = src.vars
    before = snapshot(src)
    k = 0
    for to in itertools.permutations(names):
        import random as _r
        tgt = Target(names, to, _r.Random(k), preload=0)
        first = dict()
        for entry in ENTRY[:5]:
            for t, u in A.R.items():
                tgt.pending_decref = None
                r = do_copy(entry, src, src_ab, u, tgt)
                judge(ctx, entry, A.sp, t, src, before, tgt, r,
                      lambda x: x, dict(t=A.sp.fmt(t), src=so, tgt=to))
                if first.setdefault(t, r) != r:
                    raise Violation('copy',
                                    'same-function-different-reference',
                                    dict(t=A.sp.fmt(t), entry=entry))
                if tgt.pending_decref is not None:
                    tgt.bdd.decref(r)
                ctx.counters['evaluations'] += 1
                if 0 < t < A.sp.full and so != to:
                    ctx.distinct_enum += 1
            tgt.check('copy')
            ctx.counters['target_checks'] += 1
        # copy_bdds_from: all roots with one memo
        import dd._copy as _c
        fs = [_a.Function(u, src_ab) for u in A.R.values()]
        form = ROOT_FORMS[k % len(ROOT_FORMS)]
        gs = _c.copy_bdds_from(as_form(form, fs), tgt.ab)
        ctx.counters['entry_copy_bdds_from'] += 1
        ctx.counters[f'roots_as_{form}'] += 1
        if len(gs) != len(fs):
            raise Violation('copy_bdds_from', 'number-of-copies-differs',
                            dict(form=form, given=len(fs), got=len(gs)))
        for (t, u), g in zip(A.R.items(), gs):
            judge(ctx, 'copy_bdds_from', A.sp, t, src, before, tgt,
                  g.node, lambda x: x, dict(t=A.sp.fmt(t), src=so, tgt=to),
                  refs=False)
            if first[t] != g.node:
                raise Violation('copy_bdds_from',
                                'same-function-different-reference',
                                A.sp.fmt(t))
        del fs, gs, g
        if snapshot(src) != before:
            raise Violation('copy_bdds_from', 'source-changed', None)
        tgt.check('copy_bdds_from')
        k += 1
    ctx.exhaustive = True
    ctx.sample(dict(kind='all3', src_order=so, target_orders=6,
                    entries=list(ENTRY), functions=256))


def sampled(ctx, spec):
    import dd.bdd as _b
    import dd.autoref as _a
    import dd._copy as _c
    rng = ctx.rng('sampled', spec['sub'])
    n = spec['n']
    names = [f'x{i}' for i in range(n)]
    extra_t = ['e0', 'e1']
    extra_s = ['s0']
    starts0 = _b.REORDER_STARTS
    for rnd in range(spec['rounds']):
        _b.REORDER_STARTS = starts0
        # source: own order, one unused extra variable sometimes
        sn = names + (extra_s if rng.random() < 0.4 else [])
        so = sn[:]
        rng.shuffle(so)
        # the source is declared in one order and then reordered, so
        # that the insertion order of its `vars` differs from its levels
        decl = sn[:]
        rng.shuffle(decl)
        src = _b.BDD({v: i for i, v in enumerate(decl)})
        if rng.random() < 0.7:
            _b.reorder(src, {v: i for i, v in enumerate(so)})
        else:
            so = decl
        src_ab = _a.BDD()
        src_ab._bdd = src
        src_ab.vars = src.vars
        sp_s = Space(sn)
        sp_n = Space(names)
        tabs = [random_table(rng, sp_n, kind=0.3 + 0.7 * rng.random())
                for _ in range(rng.randint(1, 4))]
        roots = []
        for t in tabs:
            u = build(src, sp_n.lift(t, sp_s), sp_s)
            src.incref(u)
            roots.append(u)
        before = snapshot(src)
        # target: extra variables interleaved, pre-existing nodes
        tn = names + (extra_t if rng.random() < 0.6 else [])
        to = tn[:]
        rng.shuffle(to)
        tgt = Target(tn, to, rng, preload=rng.choice((0, 0, 3, 6)))
        sp_t = tgt.sp
        dynamic = spec.get('dynamic') and rng.random() < 0.6
        if dynamic:
            # "whatever else the target already holds": a target on which
            # dynamic reordering is enabled and due within a few nodes
            _b.REORDER_STARTS = rng.randint(1, 6)
            tgt.bdd.configure(reordering=True)
            ctx.counters['targets_with_dynamic_reordering'] += 1
        if rng.random() < 0.3:
            # copy_vars into a fresh manager reproduces names and levels
            fresh = _b.BDD()
            if rng.random() < 0.5:
                _c.copy_vars(src, fresh)
            else:
                fa = _a.BDD()
                _a.copy_vars(src_ab, fa)
                fresh = fa._bdd
            if dict(fresh.vars) != dict(src.vars):
                raise Violation('copy_vars', 'vars-differ',
                                (dict(fresh.vars), dict(src.vars)))
            monitors.check_order_maps(fresh)
            ctx.counters['copy_vars_checks'] += 1
            # into a manager that already declares some of the names:
            # either every source variable ends at its source level, or
            # the call is refused (`add_var` refuses conflicting levels)
            pre = _b.BDD()
            k = rng.randint(1, 3)
            some = rng.sample(sorted(src.vars), min(k, len(src.vars)))
            shape = rng.randrange(3)
            if shape == 2:
                # the source's order, except that one variable (often the
                # one at level 0) sits at the bottom and another name
                # holds its level: the only conflict is that variable
                by_level = sorted(src.vars, key=src.vars.get)
                moved = by_level[0] if rng.random() < 0.6 else \
                    rng.choice(by_level)
                for v in by_level:
                    pre.add_var('filler' if v == moved else v)
                pre.add_var(moved)
            elif shape == 0:
                # the same levels as in the source, where possible
                for v in sorted(src.vars, key=src.vars.get):
                    if v in some or src.vars[v] == len(pre.vars):
                        if src.vars[v] == len(pre.vars):
                            pre.add_var(v)
                        else:
                            pre.add_var('other' + v)
            else:
                # other levels: first the chosen names, in random order
                rng.shuffle(some)
                for v in some:
                    pre.add_var(v)
            before_pre = dict(pre.vars)
            try:
                if rng.random() < 0.5:
                    _c.copy_vars(src, pre)
                else:
                    pa = _a.BDD()
                    pa._bdd = pre
                    pa.vars = pre.vars
                    _a.copy_vars(src_ab, pa)
                    del pa
            except ValueError:
                ctx.counters['copy_vars_refusals'] += 1
            else:
                wrong = {v: (pre.vars.get(v), l) for v, l in src.vars.items()
                         if pre.vars.get(v) != l}
                if wrong:
                    raise Violation('copy_vars',
                                    'returned-with-other-levels',
                                    dict(source=dict(src.vars),
                                         target_before=before_pre,
                                         target=dict(pre.vars)))
                ctx.counters['copy_vars_into_declared'] += 1
                monitors.check_order_maps(pre)
            # (what a refusal leaves behind is judged in C17)
        entry = rng.choice(ENTRY)
        info = dict(src=so, tgt=to, entry=entry,
                    tables=[sp_n.fmt(t) for t in tabs])
        if entry == 'copy_bdds_from':
            fs = [_a.Function(u, src_ab) for u in roots]
            form = rng.choice(ROOT_FORMS)
            info['roots_as'] = form
            gs = _c.copy_bdds_from(as_form(form, fs), tgt.ab)
            ctx.counters[f'roots_as_{form}'] += 1
            if len(gs) != len(fs):
                raise Violation('copy_bdds_from', 'number-of-copies-differs',
                                dict(info, given=len(fs), got=len(gs)))
            rs = [g.node for g in gs]
            for r in rs:
                tgt.bdd.incref(r)
            del fs, gs
            for t, r in zip(tabs, rs):
                judge(ctx, entry, sp_n, t, src, before, tgt, r,
                      lambda x: sp_n.lift(x, sp_t), info)
                tgt.hold(r, sp_n.lift(t, sp_t))
                tgt.bdd.decref(r)
        else:
            for t, u in zip(tabs, roots):
                tgt.pending_decref = None
                r = do_copy(entry, src, src_ab, u, tgt)
                judge(ctx, entry, sp_n, t, src, before, tgt, r,
                      lambda x: sp_n.lift(x, sp_t), info)
                tgt.hold(r, sp_n.lift(t, sp_t))
                if tgt.pending_decref is not None:
                    tgt.bdd.decref(r)
        tgt.check('copy')
        ctx.counters['target_checks'] += 1
        if not dynamic and rng.random() < 0.5:
            # the target goes on being used between two copies from the
            # same source: the first copies are released and collected
            # there (directly, or by a swap or sifting), other functions
            # take the freed node numbers, then the same roots are copied
            # once more
            gone = tgt.held[-len(tabs):]
            del tgt.held[-len(tabs):]
            for r, _t in gone:
                tgt.bdd.decref(r)
                tgt.ext[abs(r)] -= 1
                if not tgt.ext[abs(r)]:
                    del tgt.ext[abs(r)]
            how = rng.randrange(3)
            if how == 0 or len(tgt.bdd.vars) < 2:
                tgt.bdd.collect_garbage()
            elif how == 1:
                i = rng.randrange(len(tgt.bdd.vars) - 1)
                tgt.bdd.swap(i, i + 1)
            else:
                _b.reorder(tgt.bdd)
            for _ in range(rng.randint(1, 4)):
                t2 = random_table(rng, sp_t)
                tgt.hold(build(tgt.bdd, t2, sp_t), t2)
            entry2 = rng.choice([e for e in ENTRY if e != 'copy_bdds_from'])
            info2 = dict(info, entry=entry2, second_copy_after=how)
            for t, u in zip(tabs, roots):
                tgt.pending_decref = None
                r = do_copy(entry2, src, src_ab, u, tgt)
                judge(ctx, entry2, sp_n, t, src, before, tgt, r,
                      lambda x: sp_n.lift(x, sp_t), info2)
                tgt.hold(r, sp_n.lift(t, sp_t))
                if tgt.pending_decref is not None:
                    tgt.bdd.decref(r)
            tgt.check('copy-again')
            ctx.counters['copies_after_target_changed'] += 1
        if dynamic:
            if tgt.bdd.configure()['reordering'] is not True:
                raise Violation(entry, 'target-reordering-switched-off', info)
            _b.REORDER_STARTS = starts0
        ctx.case(any(0 < t < sp_n.full for t in tabs), 'sampled', tuple(so),
                 tuple(to), entry, tuple(tabs))
        if rnd == 0:
            ctx.sample(dict(kind='sampled', **info))
        for u in roots:
            src.decref(u)
        for r, t in tgt.held:
            tgt.bdd.decref(r)


def run_shard(ctx, spec):
    if spec['kind'] == 'big':
        from vf import big
        return ctx.guard('big', big.run, ctx, spec, case=spec)
    fn = dict(all3=all3, sampled=sampled)[spec['kind']]
    ctx.guard(spec['kind'], fn, ctx, spec, case=spec)
