"""C07 - reordering never changes what a held reference denotes."""
import collections
import itertools

from vf import monitors
from vf.common import Violation
from vf.oracle import Space, Denoter, build, random_table
from vf.world import World, node_of

RULE = (
    'n=3 exhaustive: every set of one or two of the 256 functions held '
    '(32896 sets) x both adjacent swaps x starting orders (2 quick / 6 '
    'thorough), and x every target permutation via reorder(order); '
    'n=1..5 sampled sets of 1-6 held functions (plus unheld garbage): '
    'every adjacent swap (by level and by name, either argument order), '
    'every target permutation, every disjoint pairing for '
    'reorder_to_pairs, repeated sifting; sifting under 8 (quick) / 64 '
    '(thorough) PYTHONHASHSEED values; dd.bdd and dd.autoref. After each '
    'reordering: every held reference has the same integer, table and '
    'external count (M7, M4), manager reduced/ordered/unique with '
    'pairwise distinct denotations (M1, M3), name/level maps agree (M2), '
    'incremental level index of swap == recomputation (M10), requested '
    'order reached / requested pairs adjacent, len after sifting <= len '
    'before. Non-trivial: a held function depends on both swapped '
    'variables (or on >= 2 variables for whole reorderings); enumerated '
    'cases distinct by construction, sampled by hash.')


def plan(tier, seed):
    specs = []
    n3 = ('a', 'b', 'c')
    perms = list(itertools.permutations(n3))
    os_ = perms if tier == 'thorough' else [perms[seed % 6],
                                            perms[(seed + 4) % 6]]
    for k, o in enumerate(os_):
        for part in range(4):
            specs.append(dict(kind='pairs3', order=o, part=part, parts=4,
                              hashseed=k))
    ns = 128 if tier == 'thorough' else 16
    for k in range(ns):
        specs.append(dict(kind='sampled', sub=k, n=1 + (k % 5),
                          rounds=400 if tier == 'thorough' else 24,
                          auto=(k % 4 == 3), hashseed=k))
    for k in range(ns):
        specs.append(dict(kind='sift', sub=k, n=2 + k % 5,
                          rounds=300 if tier == 'thorough' else 20,
                          auto=(k % 3 == 2), hashseed=100 + k))
    # instances beyond truth tables (12-70 variables), see vf/big.py
    from vf import big
    specs.extend(big.specs(tier, seed, 'C07'))
    meta = dict(
        rule=RULE,
        require=['big_histories', 'huge_histories', 'swap_cases', 'reorder_to_cases', 'pairs_cases',
                 'sift_cases', 'swap_calls_observed',
                 'swap_index_checks', 'held_refs_rechecked',
                 'explicit_reorderings_with_dynamic_due',
                 'connectives_between_reorderings',
                 'duplicate_manager_checks'],
        assumptions=['held references are incref-ed (dd.bdd) or live '
                     'Function objects (dd.autoref)',
                     'pairs given to reorder_to_pairs are disjoint'],
        timeout=1500 if tier == 'quick' else 5400)
    return specs, meta


def _after(ctx, bdd, sp, held, ext, site, sw):
    """Post-conditions shared by all reorderings (dd.bdd manager)."""
    try:
        monitors.check_structure(bdd)
        monitors.check_order_maps(bdd)
        den = monitors.check_canonicity(bdd)
        monitors.check_ledger(bdd, ext)
        monitors.check_ite_table(bdd, den)
        monitors.check_held(bdd, held, den)
        sw.check()
    except Violation as v:
        v.site = site
        raise
    ctx.counters['held_refs_rechecked'] += len(held)


def pairs3(ctx, spec):
    import dd.bdd as _b
    order = tuple(spec['order'])
    sp = Space(('a', 'b', 'c'))
    sw = monitors.SwapWatch()
    sw.install()
    perms = [dict(zip(p, range(3))) for p in itertools.permutations('abc')]
    sets = [(f,) for f in range(256)] + list(
        itertools.combinations(range(256), 2))
    sets = sets[spec['part']::spec['parts']]
    lv = {v: i for i, v in enumerate(order)}
    bad = 0
    dep2 = {t: len(sp.support(t)) >= 2 for t in range(256)}
    for k, fs in enumerate(sets):
        for action in (0, 1, 2):
            bdd = _b.BDD(lv)
            held = []
            ext = collections.Counter()
            for t in fs:
                r = build(bdd, t, sp)
                bdd.incref(r)
                ext[abs(r)] += 1
                held.append((r, t))
            # unreferenced nodes present when the operation starts
            for g in ((k * 37 + 11) % 256, (k * 101 + 7) % 256)[:k % 3]:
                build(bdd, g, sp)
            if action < 2:
                site = 'swap'
                x, y = action, action + 1
                if k % 2:
                    x, y = bdd.var_at_level(y), bdd.var_at_level(x)
                ok, _ = ctx.guard(site, _do_swap, ctx, bdd, sp, held, ext,
                                  x, y, action, sw,
                                  case=dict(fs=fs, order=order, swap=action))
                ctx.counters['swap_cases'] += 1
            else:
                site = 'reorder(order)'
                target = perms[(k + spec['part']) % 6]
                ok, _ = ctx.guard(site, _do_reorder_to, ctx, bdd, sp, held,
                                  ext, target, sw,
                                  case=dict(fs=fs, order=order,
                                            target=target))
                ctx.counters['reorder_to_cases'] += 1
            ctx.counters['evaluations'] += 1
            if any(dep2[t] for t in fs):
                ctx.distinct_enum += 1
            for r, t in held:
                bdd.decref(r)
            if not ok:
                bad += 1
                if bad > 3:
                    sw.uninstall()
                    return
    ctx.counters['swap_calls_observed'] += sw.calls
    ctx.counters['swap_index_checks'] += sw.with_index
    ctx.exhaustive = True
    ctx.sample(dict(kind='pairs3', order=order, sets=len(sets),
                    example=dict(held=[sp.fmt(t) for t in sets[-1]],
                                 swap=[0, 1])))
    sw.uninstall()


def _do_swap(ctx, bdd, sp, held, ext, x, y, i, sw):
    before = dict(bdd.vars)
    inv = {l: v for v, l in before.items()}
    r = bdd.swap(x, y)
    if bdd._level_to_var[i] != inv[i + 1] or \
            bdd._level_to_var[i + 1] != inv[i]:
        raise Violation('swap', 'levels-not-exchanged',
                        (before, dict(bdd.vars)))
    for v, l in before.items():
        if l not in (i, i + 1) and bdd.vars[v] != l:
            raise Violation('swap', 'other-level-moved',
                            (before, dict(bdd.vars)))
    if not (isinstance(r, tuple) and r[1] == len(bdd)):
        raise Violation('swap', 'reported-size-wrong', (r, len(bdd)))
    _after(ctx, bdd, sp, held, ext, 'swap', sw)


def _do_reorder_to(ctx, bdd, sp, held, ext, target, sw):
    import dd.bdd as _b
    _b.reorder(bdd, target)
    if dict(bdd.vars) != dict(target):
        raise Violation('reorder(order)', 'requested-order-not-reached',
                        (target, dict(bdd.vars)))
    _after(ctx, bdd, sp, held, ext, 'reorder(order)', sw)


def sampled(ctx, spec):
    """Worlds over n variables; systematic reorderings of sampled held
    sets, repeated on the same manager (history)."""
    rng = ctx.rng('sampled', spec['sub'])
    n = spec['n']
    names = [f'x{i}' for i in range(n)]
    kind = 'autoref' if spec['auto'] else 'bdd'
    reg = None
    if kind == 'autoref':
        reg = monitors.HandleRegistry()
        reg.install()
    sw = monitors.SwapWatch()
    sw.install()
    w = World(ctx, rng, names, kind=kind, strict=False, registry=reg)
    perms = list(itertools.permutations(names))

    # a duplicate of the manager (`copy.copy`), taken at the start of
    # some rounds: what is reordered in one of the two stays there
    tw = dict(m=None, held=[], ext={})

    def check_twin(site):
        c = tw['m']
        if c is None:
            return
        try:
            monitors.check_structure(c)
            monitors.check_order_maps(c)
            den = Denoter(c, w.sp)
            for h, tt in tw['held']:
                if den(h) != tt:
                    raise Violation(site, 'M7-held-reference-of-the-'
                                    'duplicate-manager-changed-meaning', h)
        except Violation as v:
            v.site = site
            raise
        ctx.counters['duplicate_manager_checks'] += 1

    def check(site):
        w.check(site)
        try:
            sw.check()
        except Violation as v:
            v.site = site
            raise
        check_twin(site)
        ctx.counters['held_refs_rechecked'] += len(w.pool)

    def garbage():
        # unreferenced nodes present when the reordering starts
        # (functions of few variables: some levels stay independent)
        for _ in range(rng.randint(0, 3)):
            w.build(random_table(rng, w.sp, kind=rng.random()))
        ctx.counters['reorderings_started_with_garbage'] += 1

    import contextlib

    @contextlib.contextmanager
    def maybe_due(site):
        """In a third of the cases the explicit reordering is asked of
        a manager on which dynamic reordering is enabled and due at the
        next node creation: it must run to completion all the same, and
        leave dynamic reordering enabled."""
        due = rng.random() < 0.33
        if due:
            w.raw._last_len = 1
            ctx.counters['explicit_reorderings_with_dynamic_due'] += 1
        try:
            yield
        finally:
            if due:
                still = w.raw.configure(reordering=False)['reordering']
        if due and not still:
            raise Violation(site, 'dynamic-reordering-switched-off', None)

    def one_round(rnd):
        # new held set: 1-6 functions, plus unheld garbage
        while len(w.pool) > rng.randint(0, 2):
            w.drop(rng.randrange(len(w.pool)))
        for _ in range(rng.randint(1, 6)):
            t = random_table(rng, w.sp)
            w.accept('find_or_add', w.build(t), t, strict=True)
        for _ in range(rng.randint(0, 3)):
            w.build(random_table(rng, w.sp))      # garbage
        check('find_or_add')
        # results of connectives, so that the reorderings below start
        # with entries in the manager's cache of `ite`
        for _ in range(rng.randint(0, 3)):
            rng.choice((w.s_apply, w.s_ite))()
            ctx.counters['connectives_between_reorderings'] += 1
        check('apply')
        if kind == 'bdd' and rng.random() < 0.3:
            import copy
            tw.update(m=copy.copy(w.raw), ext=dict(w.ext),
                      held=[(e.h, e.tt) for e in w.pool])
            check_twin('__copy__')
        nt = any(len(w.sp.support(e.tt)) >= 2 for e in w.pool)
        key = tuple(sorted(e.tt for e in w.pool))
        # every adjacent swap
        for i in range(n - 1):
            how = rng.randrange(4)
            a, b = ((i, i + 1), (i + 1, i),
                    (w.raw.var_at_level(i), w.raw.var_at_level(i + 1)),
                    (w.raw.var_at_level(i + 1), w.raw.var_at_level(i)))[how]
            before = {l: v for v, l in w.raw.vars.items()}
            with maybe_due('swap'):
                w.raw.swap(a, b)
            if (w.raw._level_to_var[i], w.raw._level_to_var[i + 1]) != \
                    (before[i + 1], before[i]):
                raise Violation('swap', 'levels-not-exchanged',
                                (before, dict(w.raw.vars)))
            check('swap')
            ctx.counters['swap_cases'] += 1
            ctx.case(nt, 'swap', n, key, tuple(before.values()), i)
        # target permutations (all when <= 24, else 12 sampled)
        targets = perms if len(perms) <= 24 else rng.sample(perms, 12)
        for p in targets:
            order = {v: i for i, v in enumerate(p)}
            start = tuple(sorted(w.raw.vars, key=w.raw.vars.get))
            garbage()
            with maybe_due('reorder(order)'):
                if kind == 'bdd':
                    w._b.reorder(w.raw, order)
                else:
                    w.bdd.reorder(order)
            if dict(w.raw.vars) != order:
                raise Violation('reorder(order)',
                                'requested-order-not-reached',
                                (order, dict(w.raw.vars)))
            check('reorder(order)')
            ctx.counters['reorder_to_cases'] += 1
            if rng.random() < 0.3:
                # the manager goes on being used in the new order
                i = len(w.pool)
                rng.choice((w.s_apply, w.s_ite))()
                ctx.counters['connectives_between_reorderings'] += 1
                check('apply')
                while len(w.pool) > i:
                    w.drop(len(w.pool) - 1)
            ctx.case(nt, 'to', n, key, start, p)
        # every disjoint pairing of up to 2 pairs (sampled when many)
        if n >= 2:
            for _ in range(4 if n < 4 else 10):
                vs = names[:]
                rng.shuffle(vs)
                k = rng.randint(1, n // 2)
                pairs = {vs[2 * j]: vs[2 * j + 1] for j in range(k)}
                start = tuple(sorted(w.raw.vars, key=w.raw.vars.get))
                garbage()
                with maybe_due('reorder_to_pairs'):
                    w._b.reorder_to_pairs(w.raw, pairs)
                for x, y in pairs.items():
                    if abs(w.raw.vars[x] - w.raw.vars[y]) != 1:
                        raise Violation('reorder_to_pairs',
                                        'pair-not-adjacent',
                                        (pairs, dict(w.raw.vars)))
                check('reorder_to_pairs')
                ctx.counters['pairs_cases'] += 1
                ctx.case(nt, 'pairs', n, key, start,
                         tuple(sorted(pairs.items())))
    def end_of_round():
        # now the duplicate is reordered, and the original looked at
        c = tw['m']
        if c is None:
            return
        vs = list(c.vars)
        rng.shuffle(vs)
        w._b.reorder(c, {v: i for i, v in enumerate(vs)})
        if len(vs) > 1:
            c.swap(0, 1)
        w._b.reorder(c)
        check('reordering-of-the-duplicate')
        for u, k in tw['ext'].items():
            for _ in range(k):
                c.decref(u)
        tw.update(m=None, held=[], ext={})

    for rnd in range(spec['rounds']):
        ok, _ = ctx.guard(w.site, lambda r: (one_round(r), end_of_round()),
                          rnd, case=dict(
            spec=spec, round=rnd, order=dict(w.raw.vars),
            held=[w.sp.fmt(e.tt) for e in w.pool][:8]))
        if not ok:
            break
    ctx.counters['swap_calls_observed'] += sw.calls
    ctx.counters['swap_index_checks'] += sw.with_index
    ctx.sample(dict(kind='sampled', n=n, manager=kind,
                    rounds=spec['rounds'],
                    held=[w.sp.fmt(e.tt) for e in w.pool][:4]))
    ctx.guard('shutdown', w.finish)
    sw.uninstall()
    if reg:
        reg.uninstall()


def sift(ctx, spec):
    """Sifting; this shard's PYTHONHASHSEED decides the visiting order
    of `set(bdd.vars)`."""
    import os
    rng = ctx.rng('sift', spec['sub'])
    n = spec['n']
    names = [f'v{i}' for i in range(n)]
    kind = 'autoref' if spec['auto'] else 'bdd'
    reg = None
    if kind == 'autoref':
        reg = monitors.HandleRegistry()
        reg.install()
    sw = monitors.SwapWatch()
    sw.install()
    w = World(ctx, rng, names, kind=kind, strict=False, registry=reg)
    ctx.note('hashseed', os.environ.get('PYTHONHASHSEED'))
    ctx.note('visit_order', ''.join(list(set(names))))

    def one_round(rnd):
        while len(w.pool) > rng.randint(0, 3):
            w.drop(rng.randrange(len(w.pool)))
        for _ in range(rng.randint(1, 6)):
            t = random_table(rng, w.sp, kind=0.9)
            w.accept('find_or_add', w.build(t), t, strict=True)
        for _ in range(rng.randint(0, 3)):
            w.build(random_table(rng, w.sp))
        reps = rng.randint(1, 3)
        for _ in range(reps):
            w.bdd.collect_garbage()
            n0 = len(w.raw)
            start = tuple(sorted(w.raw.vars, key=w.raw.vars.get))
            if kind == 'bdd':
                w._b.reorder(w.raw)
            else:
                w.bdd.reorder()
            if len(w.raw) > n0:
                raise Violation('reorder', 'sifting-increased-size',
                                (n0, len(w.raw)))
            w.check('reorder')
            try:
                sw.check()
            except Violation as v:
                v.site = 'reorder'
                raise
            ctx.counters['sift_cases'] += 1
            ctx.counters['held_refs_rechecked'] += len(w.pool)
            ctx.counters['sift_nodes_saved'] += n0 - len(w.raw)
            ctx.case(any(len(w.sp.support(e.tt)) >= 2 for e in w.pool),
                     'sift', n, tuple(sorted(e.tt for e in w.pool)), start,
                     os.environ.get('PYTHONHASHSEED'))
    if spec['sub'] % 8 == 0:
        ctx.guard('reorder', sift_tiny, ctx, case=dict(kind='sift-tiny'))
    for rnd in range(spec['rounds']):
        ok, _ = ctx.guard('reorder', one_round, rnd, case=dict(
            spec=spec, round=rnd, order=dict(w.raw.vars),
            held=[w.sp.fmt(e.tt) for e in w.pool][:8]))
        if not ok:
            break
    ctx.counters['swap_calls_observed'] += sw.calls
    ctx.counters['swap_index_checks'] += sw.with_index
    ctx.sample(dict(kind='sift', n=n, manager=kind,
                    hashseed=os.environ.get('PYTHONHASHSEED'),
                    final_order=dict(w.raw.vars)))
    ctx.guard('shutdown', w.finish)
    sw.uninstall()
    if reg:
        reg.uninstall()


def sift_tiny(ctx):
    """Sifting managers with one variable and with none."""
    import dd.bdd as _b
    import dd.autoref as _a
    for nvars in (1, 0):
        for auto in (False, True):
            names = ['x'][:nvars]
            bdd = (_a.BDD if auto else _b.BDD)({v: 0 for v in names})
            raw = bdd._bdd if auto else bdd
            held = []
            u = None
            if nvars:
                u = bdd.var('x')
                if not auto:
                    bdd.incref(u)
                held.append(u)
            try:
                if auto:
                    bdd.reorder()
                else:
                    _b.reorder(bdd)
            except Exception as e:
                raise Violation(
                    'reorder', f'sifting-fails-with-{nvars}-variables',
                    repr(e))
            monitors.check_structure(raw)
            monitors.check_order_maps(raw)
            ctx.counters['sift_cases'] += 1
            ctx.case(True, 'sift-tiny', nvars, auto)
            if nvars and not auto:
                bdd.decref(u)
            held = u = None


def run_shard(ctx, spec):
    if spec['kind'] == 'big':
        from vf import big
        return ctx.guard('big', big.run, ctx, spec, case=spec)
    fn = dict(pairs3=pairs3, sampled=sampled, sift=sift)[spec['kind']]
    ctx.guard(spec['kind'], fn, ctx, spec, case=spec)
