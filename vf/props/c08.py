"""C08 - dd.autoref keeps live Functions valid and releases exactly what
is dropped."""
import gc

from vf import monitors
from vf.common import Violation, EVENTS
from vf.world import World, node_of

RULE = (
    'random histories on dd.autoref managers over 3-6 variables: '
    'constructions (find_or_add, add_expr, var, cube), every apply '
    'symbol, ite, quantify, let x3, Function operators/methods, '
    'traversals through low/high/succ that create child handles, copies '
    'of handles (Function(u.node, bdd)), true/false handles, copies '
    'between managers, pickle/JSON dump+load, drops in random order, '
    'collections, sifting, reorder to an order; half of the managers with '
    'dynamic reordering enabled at a lowered threshold (explicit '
    'reorderings included). A registry of live Function objects (wrappers '
    'on Function.__init__/__del__) is the external ledger: after every '
    'step count == in-edges + live handles for every node (M4), every '
    'live handle keeps its table (M7), M1-M3, M5; at the end all handles '
    'are dropped: registry empty, a collection leaves only the terminal, '
    'the manager shutdown check (its __del__) passes when called '
    'explicitly and no unraisable exception was swallowed. Non-trivial: '
    'a step that creates or drops a handle; distinct by hash of (manager '
    'state, live-handle multiset).')


def plan(tier, seed):
    specs = []
    n = 128 if tier == 'thorough' else 16
    for k in range(n):
        specs.append(dict(kind='history', sub=k, n=3 + k % 4,
                          steps=8000 if tier == 'thorough' else 1000,
                          dynamic=(k % 2 == 1),
                          starts=(4, 8, 16, 30)[(k // 2) % 4],
                          hashseed=k))
    # instances beyond truth tables (12-70 variables), see vf/big.py
    from vf import big
    specs.extend(big.specs(tier, seed, 'C08'))
    meta = dict(
        rule=RULE,
        require=['big_histories', 'huge_histories', 'steps', 'quiescent_checks', 'handles_created',
                 'handles_deleted', 'shutdown_checks', 'step_traverse',
                 'step_dup', 'step_fop', 'gc_calls',
                 'dynamic_reorderings'],
        assumptions=['the registry is updated in the same call as the '
                     "object's own incref/decref (wrappers on the class)",
                     'cyclic garbage is collected before every ledger '
                     'comparison and the collector is off during it'],
        timeout=1500 if tier == 'quick' else 5400)
    return specs, meta


def history(ctx, spec):
    import dd.bdd as _b
    rng = ctx.rng('history', spec['sub'])
    names = [f'x{i}' for i in range(spec['n'])]
    reg = monitors.HandleRegistry()
    reg.install()
    old = _b.REORDER_STARTS
    reorders = [0]
    orig = _b.reorder

    def counting_reorder(bdd, order=None, *args, **kw):
        if bdd._last_len is None and order is None:
            reorders[0] += 1
        return orig(bdd, order, *args, **kw)
    _b.reorder = counting_reorder
    try:
        if spec['dynamic']:
            _b.REORDER_STARTS = spec['starts']
        w = World(ctx, rng, names, kind='autoref', strict=False,
                  registry=reg, reordering=spec['dynamic'])
        menu = dict(build=6, apply=8, apply_quant=1, ite=4, quantify=3,
                    let_const=2, let_rename=2, let_compose=2, cube=1, var=2,
                    add_expr=2, to_expr=1, dup=5, traverse=6, fop=8,
                    drop=10, drop_many=2, gc=4, sift=2, reorder_to=2,
                    copy_roundtrip=2, dump_load=1, consts=1, json=1, tight=1,
                    rearm=2 if spec['dynamic'] else 0,
                    **{'not': 1})
        w.s_consts = lambda: _consts(w)
        w.s_json = lambda: _json(w)
        for k in range(spec['steps']):
            created = reg.created
            deleted = reg.deleted
            ok, res = ctx.guard(w.site, w.step, menu, case=dict(
                spec=spec, step=k,
                tail=[list(map(str, d)) for d in w.log[-8:]]))
            if not ok:
                return
            live = tuple(sorted(reg.external(w.raw).items()))
            ctx.case(reg.created != created or reg.deleted != deleted,
                     'h', spec['sub'], w.state_hash(), live)
            un, ws = EVENTS.drain()
            for name, msg, obj in un:
                if name == 'AssertionError':
                    ctx.violation(w.site, 'unraisable-assertion', msg)
                    return
            for cat, msg, fn, line in ws:
                if 'decref' in msg and 'reference count' in msg:
                    ctx.violation(w.site, 'decref-below-zero', msg)
                    return
        ctx.counters['handles_created'] += reg.created
        ctx.counters['handles_deleted'] += reg.deleted
        ctx.counters['dynamic_reorderings'] += reorders[0]
        ctx.sample(dict(kind='history', n=spec['n'],
                        dynamic_reordering=spec['dynamic'],
                        handles_created=reg.created,
                        live_at_end=sum(reg.external(w.raw).values()),
                        last_steps=[list(map(str, d)) for d in w.log[-5:]]))
        ok, _ = ctx.guard('shutdown', w.finish)
        ctx.counters['shutdown_checks'] += 1
        # the real finaliser of the manager, run by dropping it
        w.bdd = w.raw = None
        del w
        gc.collect()
        un, ws = EVENTS.drain()
        for name, msg, obj in un:
            if name == 'AssertionError':
                ctx.violation('shutdown', 'unraisable-assertion', msg)
    finally:
        _b.REORDER_STARTS = old
        _b.reorder = orig
        reg.uninstall()


def _consts(w):
    t, f = w.bdd.true, w.bdd.false
    w.accept('true', t, w.sp.full, strict=True)
    w.accept('false', f, 0, strict=True)
    return ('consts',)


def _json(w):
    """JSON dump + load into the same manager: same references."""
    import os
    cands = [e for e in w.pool if abs(node_of(e.h)) != 1]
    if not cands:
        return ('json-skip',)
    es = w.rng.sample(cands, min(len(cands), w.rng.randint(1, 3)))
    fn = f'j{os.getpid()}.json'
    as_dict = w.rng.random() < 0.5
    roots = ({f'r{i}': e.h for i, e in enumerate(es)} if as_dict
             else [e.h for e in es])
    try:
        w.bdd.dump(fn, roots)
        back = w.bdd.load(fn)
    finally:
        if os.path.exists(fn):
            os.remove(fn)
    vals = list(back.values()) if as_dict else list(back)
    for e, h in zip(es, vals):
        if h.node != e.h.node:
            raise Violation('load-json', 'round-trip-not-same-reference',
                            (h.node, e.h.node))
    if w.rng.random() < 0.5:
        w.hold(vals[0], es[0].tt)
    return ('json', len(es))


def run_shard(ctx, spec):
    if spec['kind'] == 'big':
        from vf import big
        return ctx.guard('big', big.run, ctx, spec, case=spec)
    ctx.guard(spec['kind'], history, ctx, spec, case=spec)
