"""C14 - declaring and undeclaring variables keeps a valid order and all
functions."""
import itertools
import random

from vf import monitors
from vf.common import Violation
from vf.oracle import Space, random_table
from vf.world import World, node_of

RULE = (
    'exhaustive: every script of length <= 4 (quick) / 5 (thorough) over '
    '13 steps {declare a|b|c, add_var(fresh, next level), conflicting '
    'add_var, build+hold the parity of the current variables, release '
    'all+collect, swap(0,1), undeclare a|b|c, undeclare all unused, '
    'undeclare a used or unknown name} on dd.bdd and dd.autoref; random '
    'interleavings of 300-1500 steps over up to 7 names with every '
    'subset passed to undeclare_vars. After every step: the four views '
    'of the order agree and are a bijection onto 0..n-1 (M2), new names '
    'get level n, repeated declarations are no-ops, conflicting requests '
    'raise ValueError and change nothing, undeclare_vars returns exactly '
    'the requested (or all unused) names and keeps the relative order, '
    'every held reference keeps number, table (over the union of old and '
    'new names) and count (M7, M4), M1, M3. Non-trivial: a script that '
    'changes the set of declared names while a function is held; '
    'enumerated scripts are distinct by construction, random states by '
    'hash.')

ALPHA = ['declare-a', 'declare-b', 'declare-c', 'add_var-fresh',
         'add_var-conflict', 'build', 'release', 'swap', 'undeclare-a',
         'undeclare-b', 'undeclare-c', 'undeclare-all', 'undeclare-bad']


def plan(tier, seed):
    specs = []
    L = 4 if tier == 'quick' else 5
    for first in range(len(ALPHA)):
        for auto in (False, True):
            specs.append(dict(kind='exh', first=first, L=L, auto=auto,
                              hashseed=first))
    nr = 32 if tier == 'thorough' else 8
    for k in range(nr):
        specs.append(dict(kind='random', sub=k, n=2 + k % 4,
                          steps=1500 if tier == 'thorough' else 300,
                          auto=(k % 3 == 2), hashseed=k))
    meta = dict(
        rule=RULE,
        require=['scripts', 'steps', 'declarations', 'idempotent_checks',
                 'conflicts_refused', 'undeclare_calls',
                 'undeclare_refused', 'held_across_change',
                 'quiescent_checks', 'declare_calls_with_repeated_names',
                 'histories_with_nested_names',
                 'declarations_with_permuted_levels'],
        assumptions=['add_var(name, level) is exercised with the '
                     "variable's own level, the next bottom level or a "
                     'conflicting one (explicit levels leaving a gap are '
                     'transient constructor/loader usage, not judged)'],
        timeout=1500 if tier == 'quick' else 5400)
    return specs, meta


class Script:
    def __init__(self, ctx, auto, reg):
        self.ctx = ctx
        self.auto = auto
        self.reg = reg

    def fresh(self):
        self.w = World(self.ctx, random.Random(1), (), kind='autoref'
                       if self.auto else 'bdd', order=[], strict=True,
                       registry=self.reg)
        self.nfresh = 0
        self.changed_while_held = False

    def snapshot(self):
        r = self.w.raw
        return (dict(r.vars), dict(r._level_to_var), dict(r._succ),
                dict(r._ref))

    def refuse(self, fn, site, *a):
        """`fn(*a)` must raise ValueError and change nothing."""
        before = self.snapshot()
        try:
            fn(*a)
        except ValueError:
            pass
        except Exception as e:
            raise Violation(site, 'conflict-raises-other-exception',
                            (a, repr(e)))
        else:
            raise Violation(site, 'conflicting-request-accepted', (a,))
        if self.snapshot() != before:
            raise Violation(site, 'refused-request-changed-the-manager',
                            (a,))

    def declare(self, v):
        w = self.w
        r = w.raw
        n = len(r.vars)
        known = v in r.vars
        lvl_before = r.vars.get(v)
        how = (n + len(v)) % 3
        if how == 0:
            w.bdd.declare(v)
            got = r.vars[v]
        elif how == 1:
            got = w.bdd.add_var(v)
        else:
            got = w.bdd.add_var(v, lvl_before if known else n)
        want = lvl_before if known else n
        if got != want or r.vars.get(v) != want:
            raise Violation('add_var', 'wrong-level-for-declaration',
                            dict(var=v, got=got, want=want,
                                 vars=dict(r.vars)))
        if known:
            self.ctx.counters['idempotent_checks'] += 1
            if len(r.vars) != n:
                raise Violation('add_var', 'redeclaration-changed-vars', v)
        else:
            self.ctx.counters['declarations'] += 1
            if w.pool:
                self.changed_while_held = True
            w._respace(list(w.sp.names) + [v])

    def step(self, k):
        w = self.w
        r = w.raw
        name = ALPHA[k]
        ctx = self.ctx
        if name.startswith('declare-'):
            self.declare(name[-1])
        elif name == 'add_var-fresh':
            self.nfresh += 1
            self.declare(getattr(self, 'fresh_fmt', 'f{}').format(
                self.nfresh))
        elif name == 'add_var-conflict':
            vs = sorted(r.vars, key=r.vars.get)
            # every existing name at every other level (also beyond
            # the bottom); a new name at every used level
            n = len(vs)
            for v in vs:
                for lvl in range(n + 2):
                    if lvl != r.vars[v]:
                        self.refuse(w.bdd.add_var, 'add_var', v, lvl)
                        ctx.counters['conflicts_refused'] += 1
            for lvl in range(n):
                self.refuse(w.bdd.add_var, 'add_var', 'zz', lvl)
                ctx.counters['conflicts_refused'] += 1
        elif name == 'build':
            if r.vars:
                sp = w.sp
                t = 0
                for v in sp.names:
                    t ^= sp.var(v)
                if len(w.pool) % 2:
                    t = sp.NOT(t) & sp.var(sp.names[0])
                w.accept('find_or_add', w.build(t), t, strict=True)
        elif name == 'release':
            w.drop_all()
            w.bdd.collect_garbage()
        elif name == 'swap':
            if len(r.vars) >= 2:
                r.swap(0, 1)
        elif name.startswith('undeclare-') and len(name) == 11:
            self.undeclare([name[-1]])
        elif name == 'undeclare-all':
            self.undeclare(None)
        elif name == 'undeclare-bad' and not self.auto:
            self.refuse(r.undeclare_vars, 'undeclare_vars', 'unknown_name')
            ctx.counters['undeclare_refused'] += 1
            used = {i for i, _, _ in r._succ.values()}
            for v, i in r.vars.items():
                if i in used:
                    self.refuse(r.undeclare_vars, 'undeclare_vars', v)
                    ctx.counters['undeclare_refused'] += 1
                    break
        w.check(name)
        ctx.counters['steps'] += 1

    def undeclare(self, which):
        w = self.w
        r = w.raw
        if self.auto:
            # dd.autoref has no undeclare_vars; its `vars` attribute is
            # the inner dict object, which the inner method replaces
            return
        used = {i for i, _, _ in r._succ.values()}
        unused = [v for v, i in r.vars.items() if i not in used]
        before = sorted(r.vars, key=r.vars.get)
        if which is None:
            chosen = set(unused)
            got = r.undeclare_vars()
        else:
            if any(v not in r.vars or v not in unused for v in which):
                self.refuse(r.undeclare_vars, 'undeclare_vars', *which)
                self.ctx.counters['undeclare_refused'] += 1
                return
            chosen = set(which)
            got = r.undeclare_vars(*which)
        self.ctx.counters['undeclare_calls'] += 1
        if set(got) != chosen:
            raise Violation('undeclare_vars', 'removed-set-differs',
                            (sorted(got), sorted(chosen)))
        after = sorted(r.vars, key=r.vars.get)
        if after != [v for v in before if v not in chosen]:
            raise Violation('undeclare_vars', 'relative-order-changed',
                            (before, after))
        if chosen and w.pool:
            self.changed_while_held = True
        w._respace([v for v in w.sp.names if v not in chosen])


def exhaustive(ctx, spec):
    reg = None
    if spec['auto']:
        reg = monitors.HandleRegistry()
        reg.install()
    s = Script(ctx, spec['auto'], reg)
    L = spec['L']
    bad = 0
    n = 0
    for length in range(1, L + 1):
        for tail in itertools.product(range(len(ALPHA)), repeat=length - 1):
            seq = [spec['first']] + list(tail)
            s.fresh()
            ok = True
            for i, k in enumerate(seq):
                ok, _ = ctx.guard(ALPHA[k], s.step, k, case=dict(
                    script=[ALPHA[x] for x in seq], failing_step=i,
                    manager='autoref' if spec['auto'] else 'bdd'))
                if not ok:
                    break
            if ok:
                ok, _ = ctx.guard('shutdown', s.w.finish, case=dict(
                    script=[ALPHA[x] for x in seq]))
            n += 1
            ctx.counters['evaluations'] += 1
            ctx.counters['scripts'] += 1
            if s.changed_while_held:
                ctx.distinct_enum += 1
                ctx.counters['held_across_change'] += 1
            if not ok:
                bad += 1
                if bad > 3:
                    break
        if bad > 3:
            break
    ctx.exhaustive = bad == 0
    ctx.sample(dict(kind='exhaustive', first=ALPHA[spec['first']],
                    max_len=L, scripts=n,
                    manager='autoref' if spec['auto'] else 'bdd'))
    if reg:
        reg.uninstall()


def random_(ctx, spec):
    rng = ctx.rng('random', spec['sub'])
    names = [f'x{i}' for i in range(spec['n'])]
    nested = spec['sub'] % 2 == 1
    if nested:
        # names that contain one another (x, x1, x10, x11, x100, ...)
        names = ['x', 'x1', 'y', 'y1', 'xy', 'x1y'][:min(spec['n'], 3)]
        ctx.counters['histories_with_nested_names'] += 1
    kind = 'autoref' if spec['auto'] else 'bdd'
    reg = None
    if kind == 'autoref':
        reg = monitors.HandleRegistry()
        reg.install()
    w = World(ctx, rng, names, kind=kind, strict=False, registry=reg)
    if nested:
        w.fresh_names = (p + '0' * i for i in itertools.count(1)
                         for p in ('x1', 'y1'))
    sc = Script(ctx, spec['auto'], reg)
    sc.w = w
    sc.nfresh = 100
    sc.fresh_fmt = 'x1{}' if nested else 'f{}'
    sc.changed_while_held = False

    def s_conflict():
        sc.step(ALPHA.index('add_var-conflict'))
        return ('conflict',)

    def s_redeclare():
        v = rng.choice(list(w.raw.vars))
        sc.declare(v)
        return ('redeclare', v)

    def s_undeclare_bad():
        sc.step(ALPHA.index('undeclare-bad'))
        return ('undeclare-bad',)

    def s_undeclare_subset():
        w.bdd.collect_garbage()
        used = {i for i, _, _ in w.raw._succ.values()}
        unused = [v for v, i in w.raw.vars.items() if i not in used]
        if not unused:
            return ('undeclare-skip',)
        if rng.random() < 0.3:
            sc.undeclare(None)
        else:
            sc.undeclare(rng.sample(unused, rng.randint(1, len(unused))))
        return ('undeclare',)
    def s_declare_many():
        # one `declare` call with several names: declared ones, new ones,
        # and names that occur twice in the call; the same as declaring
        # them one after the other
        known = list(w.raw.vars)
        new = []
        if len(w.sp.names) < 7:
            new = [next(w.fresh_names)
                   for _ in range(rng.randint(1, min(2, 7 - len(w.sp.names))))]
        args = new + rng.sample(known, min(len(known), rng.randint(0, 2)))
        args += rng.sample(args, rng.randint(1, len(args))) if args else []
        rng.shuffle(args)
        if not args:
            return ('declare-many-skip',)
        want = dict(w.raw.vars)
        for v in args:
            want.setdefault(v, len(want))
        w.bdd.declare(*args)
        ctx.counters['declare_calls_with_repeated_names'] += 1
        if dict(w.raw.vars) != want:
            raise Violation('declare', 'differs-from-one-by-one-declaration',
                            dict(args=args, got=dict(w.raw.vars), want=want))
        first_new = [v for v in dict.fromkeys(args) if v in new]
        if first_new:
            w._respace(list(w.sp.names) + first_new)
        return ('declare-many', tuple(args))
    def s_declare_permuted():
        # several new variables, each with an explicit level, given in
        # an arbitrary sequence of the free levels n .. n+k-1 (gaps exist
        # in between, as when a constructor or a loader declares
        # variables one at a time; judged when the batch is complete)
        room = 7 - len(w.sp.names)
        if room < 2:
            return ('declare-permuted-skip',)
        k = rng.randint(2, min(room, 3))
        new = [next(w.fresh_names) for _ in range(k)]
        n = len(w.raw.vars)
        lv = list(range(n, n + k))
        rng.shuffle(lv)
        for v, l in zip(new, lv):
            got = w.bdd.add_var(v, l)
            if got != l:
                raise Violation('add_var', 'wrong-level-for-declaration',
                                dict(var=v, got=got, want=l))
        ctx.counters['declarations_with_permuted_levels'] += 1
        want = dict(zip(new, lv))
        if {v: w.raw.vars.get(v) for v in new} != want:
            raise Violation('add_var', 'wrong-level-for-declaration',
                            dict(want=want, vars=dict(w.raw.vars)))
        w._respace(list(w.sp.names) + new)
        return ('declare-permuted', tuple(zip(new, lv)))
    w.s_declare_permuted = s_declare_permuted
    w.s_declare_many = s_declare_many
    w.s_conflict = s_conflict
    w.s_redeclare = s_redeclare
    w.s_undeclare_bad = s_undeclare_bad
    w.s_undeclare_subset = s_undeclare_subset
    menu = dict(build=6, apply=5, ite=2, quantify=1, let_rename=1, drop=6,
                drop_many=2, gc=4, swap=4 if kind == 'bdd' else 1, sift=1,
                reorder_to=1, declare=7,
                undeclare_subset=6 if kind == 'bdd' else 0, conflict=3,
                redeclare=3, undeclare_bad=3 if kind == 'bdd' else 0,
                canon=2, clone=2 if kind == 'bdd' else 0, declare_many=3,
                declare_permuted=3)
    for k in range(spec['steps']):
        names_before = set(w.raw.vars)
        held = bool(w.pool)
        ok, res = ctx.guard(w.site, w.step, menu, case=dict(
            spec=spec, step=k, tail=[list(map(str, d)) for d in w.log[-8:]]))
        if not ok:
            break
        changed = set(w.raw.vars) != names_before
        if changed and held:
            ctx.counters['held_across_change'] += 1
        if changed and 'undeclare' not in w.site:
            ctx.counters['declarations'] += 0
        ctx.case(changed and held, 'rand', spec['sub'], w.state_hash())
    ctx.counters['scripts'] += 1
    ctx.sample(dict(kind='random', manager=kind, steps=spec['steps'],
                    final_vars=dict(w.raw.vars),
                    last_steps=[list(map(str, d)) for d in w.log[-5:]]))
    ctx.guard('shutdown', w.finish)
    if reg:
        reg.uninstall()


def run_shard(ctx, spec):
    fn = dict(exh=exhaustive, random=random_)[spec['kind']]
    ctx.guard(spec['kind'], fn, ctx, spec, case=spec)
