"""C13 - image and preimage equal rename, conjoin, quantify."""
import itertools
import logging

from vf import monitors
from vf.common import Violation
from vf.oracle import Space, Denoter, build, random_table
from vf.sweep import AllFunctions, subsets

RULE = (
    'one pair (x, x\') plus a free variable z, exhaustive: every relation '
    '(256 tables over x, x\', z) x every set x every subset of quantified '
    'variables allowed by the precondition x both quantifiers x every '
    'order that keeps the pair adjacent (image: all 6 orders); 2 and 3 '
    'pairs densely sampled, orders keeping pairs adjacent (primed above '
    'or below) and, for image, arbitrary orders; rename and qvars given '
    'as names or as levels; dd.bdd functions and dd.autoref wrappers. '
    'Input class judged: keys and values of the renaming disjoint; '
    'preimage: pairs adjacent and the target does not depend on a primed '
    '(value) variable; image: every rename target quantified or absent '
    'from both operands. Inputs outside the class are executed and only '
    'counted (and the manager re-checked). Oracle: relational product on '
    'truth tables. Non-trivial: relation and set not constant; '
    'enumerated cases distinct by construction, sampled by hash.')


def plan(tier, seed):
    specs = []
    names = ('x', "x'", 'z')
    perms = list(itertools.permutations(names))
    for k, o in enumerate(perms):
        for fn in ('image', 'preimage'):
            adj = abs(o.index('x') - o.index("x'")) == 1
            if fn == 'preimage' and not adj:
                continue
            specs.append(dict(kind='one', fn=fn, order=o, hashseed=k))
    ns = 128 if tier == 'thorough' else 12
    for k in range(ns):
        specs.append(dict(kind='multi', sub=k, pairs=2 + k % 2,
                          count=20000 if tier == 'thorough' else 500,
                          hashseed=k))
    for k in range(4 if tier == 'quick' else 32):
        specs.append(dict(kind='fixpoint', sub=k,
                          rounds=150 if tier == 'quick' else 1500,
                          hashseed=k))
    for k in range(4 if tier == 'quick' else 32):
        specs.append(dict(kind='wide', sub=k,
                          rounds=25 if tier == 'quick' else 120,
                          hashseed=k))
    meta = dict(
        rule=RULE,
        require=['wide_results', 'fixpoint_results', 'image_results', 'preimage_results',
                 'level_arguments',
                 'calls_with_reordering_due',
                 'autoref_results', 'outside_class_inputs',
                 'nonadjacent_image_results'],
        assumptions=['documented usage: the target of preimage is a set '
                     'over unprimed variables',
                     'truth-table model in vf/oracle.py'],
        timeout=1500 if tier == 'quick' else 5400)
    return specs, meta


QFORMS = ('tuple', 'list', 'set', 'frozenset', 'generator', 'iterator',
          'dict_keys')


def as_form(form, xs):
    xs = list(xs)
    if form == 'tuple':
        return tuple(xs)
    if form == 'list':
        return xs
    if form == 'set':
        return set(xs)
    if form == 'frozenset':
        return frozenset(xs)
    if form == 'generator':
        return (x for x in xs)
    if form == 'iterator':
        return iter(xs)
    if form == 'dict_keys':
        return dict.fromkeys(xs).keys()
    raise ValueError(form)


def call(ctx, A, ab, _a, _b, fn, tr, st, rename, qvars, fa, how):
    """Run image/preimage through one of the entry points; returns an
    int reference."""
    bdd = A.bdd
    if how == 1:
        # levels instead of names
        rename = {bdd.vars[k]: bdd.vars[v] for k, v in rename.items()}
        qvars = {bdd.vars[v] for v in qvars}
        ctx.counters['level_arguments'] += 1
    if how == 2:
        f = _a.image if fn == 'image' else _a.preimage
        t, s = _a.Function(tr, ab), _a.Function(st, ab)
        form = QFORMS[(tr + 3 * st + len(qvars) + fa) % len(QFORMS)]
        ctx.counters['qvars_as_' + form] += 1
        r = f(t, s, rename, as_form(form, qvars), fa)
        ctx.counters['autoref_results'] += 1
        u = r.node
        # the caller judges immediately; keep no handle
        del t, s
        A.bdd.incref(u)
        del r
        A.bdd.decref(u)
        return u
    f = _b.image if fn == 'image' else _b.preimage
    # `qvars` is documented as an iterable: vary the container
    form = QFORMS[(tr + 3 * st + len(qvars) + fa) % len(QFORMS)]
    ctx.counters['qvars_as_' + form] += 1
    return f(tr, st, rename, as_form(form, qvars), bdd, fa)


def in_class(sp, fn, trans, st, rename, qvars):
    if fn == 'image':
        s = (sp.support(trans) | sp.support(st)) - set(qvars)
        return not (s & set(rename.values()))
    return not (sp.support(st) & set(rename.values()))


def model(sp, fn, trans, st, rename, qvars, fa):
    Q = sp.forall if fa else sp.exists
    if fn == 'image':
        return sp.rename(Q(trans & st, qvars), rename)
    return Q(trans & sp.rename(st, rename), qvars)


def one(ctx, spec):
    import dd.bdd as _b
    import dd.autoref as _a
    logging.getLogger('dd.bdd').setLevel(logging.ERROR)
    names = ('x', "x'", 'z')
    order = tuple(spec['order'])
    fn = spec['fn']
    A = AllFunctions(names, order)
    sp = A.sp
    ab = _a.BDD()
    ab._bdd = A.bdd
    ab.vars = A.bdd.vars
    adj = abs(order.index('x') - order.index("x'")) == 1
    rename = {"x'": 'x'} if fn == 'image' else {'x': "x'"}
    subs = list(subsets(names))
    n = nt = bad = 0
    for trans in range(256):
        for st in range(256):
            if fn == 'preimage' and sp.depends(st, "x'"):
                continue
            for qv in subs:
                ok_class = in_class(sp, fn, trans, st, rename, qv)
                if not ok_class:
                    if (trans + st) % 97:
                        continue
                    ctx.counters['outside_class_inputs'] += 1
                    try:
                        call(ctx, A, ab, _a, _b, fn, A.R[trans], A.R[st],
                             rename, qv, False, 0)
                    except AssertionError:
                        pass
                    continue
                for fa in (False, True):
                    how = (trans + st + len(qv) + fa) % 3
                    got = call(ctx, A, ab, _a, _b, fn, A.R[trans], A.R[st],
                               rename, qv, fa, how)
                    want = model(sp, fn, trans, st, rename, qv, fa)
                    n += 1
                    nt += (0 < trans < 255) and (0 < st < 255)
                    if A.table(got) != want:
                        bad += 1
                        ctx.violation(
                            fn, 'wrong-result',
                            dict(trans=sp.fmt(trans), set=sp.fmt(st),
                                 rename=rename, qvars=qv, forall=fa,
                                 how=how, got=sp.fmt(A.table(got)),
                                 want=sp.fmt(want), order=order),
                            case=dict(fn=fn, trans=trans, st=st, qvars=qv,
                                      forall=fa, order=order))
                        if bad > 3:
                            return
        if trans % 32 == 31:
            A.bdd.collect_garbage()
    ctx.counters['evaluations'] += n
    ctx.counters[fn + '_results'] += n
    if fn == 'image' and not adj:
        ctx.counters['nonadjacent_image_results'] += n
    ctx.distinct_enum += nt
    ctx.exhaustive = True
    monitors.check_structure(A.bdd)
    monitors.check_canonicity(A.bdd)
    ctx.sample(dict(kind='one', fn=fn, order=order, rename=rename,
                    results=n))


def multi(ctx, spec):
    import dd.bdd as _b
    import dd.autoref as _a
    logging.getLogger('dd.bdd').setLevel(logging.ERROR)
    rng = ctx.rng('multi', spec['sub'])
    k = spec['pairs']
    un = [f'x{i}' for i in range(k)]
    pr = [f"x{i}'" for i in range(k)]
    free = ['z'] if k == 2 else []
    names = un + pr + free
    sp = Space(names)
    done = 0
    first = True
    while done < spec['count']:
        fn = rng.choice(('image', 'preimage'))
        # order: pairs adjacent (primed above or below); for image
        # sometimes arbitrary
        arbitrary = fn == 'image' and rng.random() < 0.35
        if arbitrary:
            order = names[:]
            rng.shuffle(order)
        else:
            blocks = [[a, b] if rng.random() < 0.5 else [b, a]
                      for a, b in zip(un, pr)] + [[z] for z in free]
            rng.shuffle(blocks)
            order = [v for b in blocks for v in b]
        bdd = _b.BDD({v: i for i, v in enumerate(order)})
        ab = _a.BDD()
        ab._bdd = bdd
        ab.vars = bdd.vars
        adj = all(abs(order.index(a) - order.index(b)) == 1
                  for a, b in zip(un, pr))

        class A_:
            pass
        A = A_()
        A.bdd = bdd
        for _ in range(25):
            trans = random_table(rng, sp, kind=0.3 + 0.7 * rng.random())
            st = random_table(rng, sp, kind=0.3 + 0.7 * rng.random())
            sel = [i for i in range(k) if rng.random() < 0.8] or [0]
            if fn == 'preimage':
                st = sp.exists(st, pr)   # a set over unprimed variables
                rename = {un[i]: pr[i] for i in sel}
                qv = [v for v in names if rng.random() < 0.45]
            else:
                rename = {pr[i]: un[i] for i in sel}
                # quantify the rename targets that occur, plus others
                need = (sp.support(trans) | sp.support(st)) & \
                    set(rename.values())
                qv = sorted(need | {v for v in names if rng.random() < 0.3})
            fa = rng.random() < 0.4
            if not in_class(sp, fn, trans, st, rename, qv):
                continue
            tr_r = build(bdd, trans, sp)
            bdd.incref(tr_r)
            st_r = build(bdd, st, sp)
            bdd.incref(st_r)
            how = rng.randrange(3)
            dynamic = rng.random() < 0.3
            if dynamic:
                # dynamic reordering enabled and due at the next node
                # creation: the result must be the same (operands held)
                bdd._last_len = 1
                ctx.counters['calls_with_reordering_due'] += 1
            try:
                got = call(ctx, A, ab, _a, _b, fn, tr_r, st_r, rename, qv,
                           fa, how)
            finally:
                if dynamic:
                    still = bdd.configure(reordering=False)['reordering']
            if dynamic and not still:
                ctx.violation(fn, 'reordering-switched-off',
                              dict(order=order, how=how))
            want = model(sp, fn, trans, st, rename, qv, fa)
            den = Denoter(bdd, sp)
            ctx.case(0 < trans < sp.full and 0 < st < sp.full, fn,
                     tuple(order), trans, st, tuple(sorted(rename.items())),
                     tuple(qv), fa)
            ctx.counters[fn + '_results'] += 1
            if fn == 'image' and not adj:
                ctx.counters['nonadjacent_image_results'] += 1
            done += 1
            if den(got) != want:
                ctx.violation(
                    fn, 'wrong-result',
                    dict(trans=sp.fmt(trans), set=sp.fmt(st), rename=rename,
                         qvars=qv, forall=fa, how=how, order=order,
                         got=sp.fmt(den(got)), want=sp.fmt(want)))
                return
            # operands unchanged
            if den(tr_r) != trans or den(st_r) != st:
                ctx.violation(fn, 'operand-changed', None)
                return
            if first:
                ctx.sample(dict(kind='multi', fn=fn, order=order,
                                rename=rename, qvars=list(qv), forall=fa,
                                trans=sp.fmt(trans), set=sp.fmt(st)))
                first = False
            bdd.decref(tr_r)
            bdd.decref(st_r)
        monitors.check_structure(bdd)
        monitors.check_canonicity(bdd)
        bdd.collect_garbage()
        if set(bdd._succ) != {1}:
            ctx.violation(fn, 'nodes-left-after-release', None)
            return


def fixpoint(ctx, spec):
    """Repeated calls with the same relation, renaming, quantified set and
    quantifier (as in a reachability loop), old results released and
    collected in between, other functions built so that freed node numbers
    are re-used: every call is judged against the model."""
    import dd.bdd as _b
    import dd.autoref as _a
    logging.getLogger('dd.bdd').setLevel(logging.ERROR)
    rng = ctx.rng('fixpoint', spec['sub'])
    for rnd in range(spec['rounds']):
        k = rng.randint(1, 2)
        un = [f'x{i}' for i in range(k)]
        pr = [f"x{i}'" for i in range(k)]
        free = ['z']
        names = un + pr + free
        sp = Space(names)
        blocks = [[a, b] if rng.random() < 0.5 else [b, a]
                  for a, b in zip(un, pr)] + [[z] for z in free]
        rng.shuffle(blocks)
        order = [v for b in blocks for v in b]
        bdd = _b.BDD({v: i for i, v in enumerate(order)})
        ab = _a.BDD()
        ab._bdd = bdd
        ab.vars = bdd.vars

        class A_:
            pass
        A = A_()
        A.bdd = bdd
        fn = rng.choice(('image', 'preimage'))
        trans = random_table(rng, sp, kind=0.4 + 0.6 * rng.random())
        tr_r = build(bdd, trans, sp)
        bdd.incref(tr_r)
        if fn == 'preimage':
            rename = {a: b for a, b in zip(un, pr)}
            qv = list(pr)
        else:
            rename = {b: a for a, b in zip(un, pr)}
            qv = list(un)
        fa = rng.random() < 0.3
        how = rng.randrange(3)
        cur = sp.exists(random_table(rng, sp, 0.6), pr)
        for it in range(rng.randint(3, 7)):
            if not in_class(sp, fn, trans, cur, rename, qv):
                break
            st_r = build(bdd, cur, sp)
            bdd.incref(st_r)
            got = call(ctx, A, ab, _a, _b, fn, tr_r, st_r, rename, qv, fa,
                       how)
            want = model(sp, fn, trans, cur, rename, qv, fa)
            den = Denoter(bdd, sp)
            ctx.counters[fn + '_results'] += 1
            ctx.counters['fixpoint_results'] += 1
            ctx.case(0 < trans < sp.full, 'fixpoint', fn, tuple(order),
                     trans, cur, fa, it)
            if den(got) != want:
                ctx.violation(
                    fn, 'wrong-result',
                    dict(trans=sp.fmt(trans), set=sp.fmt(cur), rename=rename,
                         qvars=qv, forall=fa, how=how, order=order,
                         iteration=it, got=sp.fmt(den(got)),
                         want=sp.fmt(want)))
                return
            # release the operand and the (unheld) result, collect, and
            # let other functions take the freed numbers
            bdd.decref(st_r)
            bdd.collect_garbage()
            junk = [build(bdd, random_table(rng, sp), sp)
                    for _ in range(rng.randint(0, 3))]
            del junk
            # next set: the result joined with some other states (a set
            # over the unprimed variables)
            cur = sp.exists(want | random_table(rng, sp, 0.2), pr) \
                if rng.random() < 0.7 else sp.exists(
                    random_table(rng, sp, 0.5), pr)
        bdd.decref(tr_r)


def wide(ctx, spec):
    """Many pairs (up to 40): the transition relation toggles a fixed set
    of bits, x_i' <=> (x_i xor m_i), so that the image of a set S is
    {s xor m : s in S} and so is the preimage; both are judged pointwise
    on sampled states (no truth tables at this size)."""
    import dd.bdd as _b
    import dd.autoref as _a
    from vf import big
    logging.getLogger('dd.bdd').setLevel(logging.ERROR)
    rng = ctx.rng('wide', spec['sub'])
    for rnd in range(spec['rounds']):
        k = rng.choice((3, 8, 16, 17, 18, 24, 31, 32, 33, 40))
        un = [f'x{i}' for i in range(k)]
        pr = [f"x{i}'" for i in range(k)]
        blocks = [[a, b] if rng.random() < 0.5 else [b, a]
                  for a, b in zip(un, pr)]
        rng.shuffle(blocks)
        order = [v for blk in blocks for v in blk]
        lv = {v: i for i, v in enumerate(order)}
        keys = list(lv)
        rng.shuffle(keys)
        auto = rng.random() < 0.4
        ab = _a.BDD({v: lv[v] for v in keys})
        bdd = ab._bdd
        mask = {v: rng.random() < 0.5 for v in un}
        # relation and set through the public interface of dd.autoref
        # (handles keep everything alive)
        trans = ab.true
        for x, xp in zip(un, pr):
            e = ab.add_expr(f"{xp} <=> {'~ ' if mask[x] else ''}{x}")
            trans = trans & e
        cubes = []
        S = ab.false
        for _ in range(rng.randint(1, 5)):
            vs = rng.sample(un, rng.randint(1, min(k, 6)))
            d = {v: rng.random() < 0.5 for v in vs}
            cubes.append(d)
            S = S | ab.cube(d)

        def in_S(a):
            return any(all(a[v] == b for v, b in d.items()) for d in cubes)
        fn = rng.choice(('image', 'preimage'))
        fa = False
        if fn == 'image':
            rename = dict(zip(pr, un))
            qv = list(un)
        else:
            rename = dict(zip(un, pr))
            qv = list(pr)
        how = rng.randrange(3)
        form = QFORMS[rng.randrange(len(QFORMS))]
        if how == 1:
            rn = {bdd.vars[a]: bdd.vars[b] for a, b in rename.items()}
            q = as_form(form, [bdd.vars[v] for v in qv])
            got = (_b.image if fn == 'image' else _b.preimage)(
                trans.node, S.node, rn, q, bdd, fa)
            ctx.counters['level_arguments'] += 1
        elif how == 2 or auto:
            r = (_a.image if fn == 'image' else _a.preimage)(
                trans, S, rename, as_form(form, qv), fa)
            got = r.node
            bdd.incref(got)
            del r
            bdd.decref(got)
        else:
            got = (_b.image if fn == 'image' else _b.preimage)(
                trans.node, S.node, rename, as_form(form, qv), bdd, fa)
        ctx.counters[fn + '_results'] += 1
        ctx.counters['wide_results'] += 1
        ctx.note('pairs', k)
        # judge on sampled states over the unprimed variables
        for _ in range(60):
            a = {v: rng.random() < 0.5 for v in un}
            if rng.random() < 0.5:
                # a state that is in the answer: s xor m for s in S
                d = rng.choice(cubes)
                s0 = dict(a)
                s0.update(d)
                a = {v: s0[v] != mask[v] for v in un}
            full = dict(a)
            full.update({v: False for v in pr})
            want = in_S({v: a[v] != mask[v] for v in un})
            if big.eval_bdd(bdd, got, full) != want:
                ctx.violation(fn, 'wrong-result',
                              dict(pairs=k, how=how, order=order[:12],
                                   qvars_as=form, want=want))
                return
        sup = bdd.support(got)
        if sup & set(pr):
            ctx.violation(fn, 'result-depends-on-primed-variable',
                          dict(pairs=k, vars=sorted(sup & set(pr))[:6]))
            return
        ctx.case(True, 'wide', fn, k, tuple(order), rnd)
        del trans, S, e


def run_shard(ctx, spec):
    fn = dict(one=one, multi=multi, wide=wide,
              fixpoint=fixpoint)[spec['kind']]
    ctx.guard(spec['kind'], fn, ctx, spec, case=spec)
