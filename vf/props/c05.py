"""C05 - add_expr gives each formula its documented meaning; to_expr
round-trips."""
import itertools

from vf import formula, monitors
from vf.common import Violation
from vf.oracle import Space, Denoter, build
from vf.sweep import AllFunctions, orders

RULE = (
    'formulas are strings; the oracle is an independent reader of the '
    'documented grammar (vf/formula.py). (a) `a op1 b op2 c` for all '
    '13x13 binary spellings x 27 prefix patterns of ~/!, and '
    '`a op1 b op2 c op3 d` for all 13^3 spelling triples, each also in the '
    'fully parenthesised form derived by the oracle (must be the same '
    'reference); (b) binder templates (\\A, \\E, \\S; multi-name; nested; '
    'after a binary operator; after ~; parenthesised) x operator '
    'spellings; (c) ite, constants in every documented spelling, both '
    'comment forms, tabs/newlines, @n / @-n for existing nodes; (d) random '
    'formulas from the grammar up to depth 5, alternating between two '
    'managers with opposite orders and interfaces (the translator is '
    'shared), with refused formulas (undeclared name, unknown node, syntax '
    'error at the end) and collections in between, over identifier sets '
    'that include near-keywords (ITE, tRUE, FALSe, ite_, true\', ...); (e) add_expr(to_expr(u)) == '
    'u for all functions of <=3 variables under all orders and 4 '
    'variables sampled/all; dd.bdd and dd.autoref. Non-trivial: the '
    'formula contains at least one operator; distinct by formula text.')

NAME_SETS = (
    ['x', "y'", '_z', 'w1'],
    ['ITE', 'tRUE', 'FALSe', 'ite_'],
    ['Ite', "true'", 'falsE', 'TRUE1'],
    ['iTe', '_true', 'False_', 'x'],
)

SPELLINGS = [s for op in ('equiv', 'implies', 'diff', 'xor', 'or', 'and')
             for s in formula.BIN[op][1]]
assert len(SPELLINGS) == 13


def plan(tier, seed):
    specs = []
    n4 = ('a', 'b', 'c', 'd')
    os4 = list(dict.fromkeys(orders(n4, 'quick', seed,
                                    8 if tier == 'thorough' else 3)))
    for k, o in enumerate(os4):
        for auto in (False, True):
            specs.append(dict(kind='matrix', order=o, auto=auto, hashseed=k))
            specs.append(dict(kind='binders', order=o, auto=auto,
                              hashseed=k))
    nr = 96 if tier == 'thorough' else 16
    for k in range(nr):
        specs.append(dict(kind='random', sub=k, n=2 + k % 4,
                          count=8000 if tier == 'thorough' else 1200,
                          auto=(k % 2 == 1), hashseed=k))
    n3 = ('a', 'b', 'c')
    for k, o in enumerate(orders(n3, 'thorough', seed, 6)):
        specs.append(dict(kind='roundtrip', names=n3, order=o, sample=None,
                          hashseed=k))
    nk = ('ITE', 'tRUE', 'falsE')   # names that are nearly keywords
    for k, o in enumerate(orders(nk, 'thorough', seed, 6)):
        if tier == 'thorough' or k % 3 == 0:
            specs.append(dict(kind='roundtrip', names=nk, order=o,
                              sample=None, hashseed=k))
    if tier == 'thorough':
        for k, o in enumerate(orders(n4, tier, seed, 24)):
            specs.append(dict(kind='roundtrip', names=n4, order=o,
                              sample=None, hashseed=k))
    else:
        for k, o in enumerate(os4):
            specs.append(dict(kind='roundtrip', names=n4, order=o,
                              sample=6000, hashseed=k))
    # formulas over 12-70 variables (binders with many names), vf/big.py
    from vf import big
    specs.extend(big.specs(tier, seed, 'C05'))
    meta = dict(
        rule=RULE,
        require=['big_histories', 'binders_with_many_names', 'matrix_formulas', 'paren_forms', 'binder_formulas',
                 'random_formulas', 'roundtrips', 'constant_spellings',
                 'node_reference_formulas', 'comment_formulas',
                 'refused_formulas_in_between',
                 'managers_with_dynamic_reordering',
                 'formulas_with_reordering_due',
                 'order_changes_between_formulas',
                 'variables_declared_or_removed_between_formulas'],
        assumptions=[
            'vf/formula.py reads the grammar as documented in doc.md '
            '(precedence list, left associativity, binders extend right)',
            'truth-table model in vf/oracle.py',
            '`=` (no documented meaning) and names containing `.` are not '
            'exercised'],
        timeout=1500 if tier == 'quick' else 5400)
    return specs, meta


class Mgr:
    """A manager (dd.bdd or dd.autoref) with a few held nodes for @n."""

    def __init__(self, ctx, names, order, auto, rng):
        import dd.bdd as _b
        import dd.autoref as _a
        self.ctx = ctx
        self.sp = Space(names)
        lv = {v: i for i, v in enumerate(order)}
        self.auto = auto
        self.bdd = _a.BDD(lv) if auto else _b.BDD(lv)
        self.raw = self.bdd._bdd if auto else self.bdd
        self.order = tuple(order)
        self.kept = []
        self.extra = None
        self.nodes = []
        for _ in range(4):
            t = rng.getrandbits(self.sp.size)
            r = build(self.raw, t, self.sp)
            self.raw.incref(r)
            self.nodes.append(r if rng.random() < 0.5 else -r)

    def node(self, h):
        return h.node if self.auto else h

    def judge(self, s, counter, also_paren=True):
        """add_expr(s) must denote what the oracle reads in `s`."""
        ctx = self.ctx
        try:
            ast = formula.parse(s)
        except formula.FormulaError as e:
            raise RuntimeError(f'harness generated an unreadable formula '
                               f'{s!r}: {e}')
        den = Denoter(self.raw, self.sp)
        want = formula.evaluate(ast, self.sp, den)
        ctx.case(ast[0] not in ('var', 'const', 'node'), s)
        ctx.counters[counter] += 1
        try:
            h = self.bdd.add_expr(s)
        except Exception as e:
            ctx.violation('add_expr', 'documented-formula-rejected:' +
                          type(e).__name__, dict(formula=s, exc=repr(e)[:300],
                                                 order=self.order))
            return False
        u = self.node(h)
        got = Denoter(self.raw, self.sp)(u)
        if got != want:
            ctx.violation('add_expr', 'wrong-meaning',
                          dict(formula=s, got=self.sp.fmt(got),
                               want=self.sp.fmt(want), order=self.order,
                               oracle_reading=formula.paren(ast),
                               manager='autoref' if self.auto else 'bdd'),
                          case=dict(formula=s, order=self.order))
            return False
        if also_paren:
            s2 = formula.paren(ast)
            h2 = self.bdd.add_expr(s2)
            ctx.counters['paren_forms'] += 1
            if self.node(h2) != u:
                ctx.violation('add_expr', 'parenthesised-form-differs',
                              dict(formula=s, paren=s2, got=self.node(h2),
                                   want=u))
                return False
        return True


def matrix(ctx, spec):
    rng = ctx.rng('matrix', spec['order'], spec['auto'])
    m = Mgr(ctx, 'abcd', spec['order'], spec['auto'], rng)
    pre = ('', '~ ', '! ')
    bad = 0
    for s1, s2 in itertools.product(SPELLINGS, repeat=2):
        for p1, p2, p3 in itertools.product(pre, repeat=3):
            s = f'{p1}a {s1} {p2}b {s2} {p3}c'
            bad += not m.judge(s, 'matrix_formulas',
                               also_paren=(p1 + p2 + p3 == ''))
            if bad > 4:
                return
    for s1, s2, s3 in itertools.product(SPELLINGS, repeat=3):
        s = f'a {s1} b {s2} c {s3} d'
        bad += not m.judge(s, 'matrix_formulas', also_paren=False)
        if bad > 4:
            return
    # no spaces at all / double negation / nested parentheses
    for s1, s2 in itertools.product(SPELLINGS, repeat=2):
        for s in (f'a{s1}b{s2}c', f'~~a{s1}!(b{s2}~c)',
                  f'((a){s1}(b{s2}(c)))'):
            if '--' in s or '->' in s.replace(s1, '').replace(s2, ''):
                pass
            bad += not m.judge(s, 'matrix_formulas', also_paren=False)
            if bad > 4:
                return
    ctx.exhaustive = True
    ctx.sample(dict(kind='matrix', order=spec['order'],
                    example=f'~ a {SPELLINGS[3]} b {SPELLINGS[9]} ! c'))


BINDER_TEMPLATES = [
    '{Q} a: a {o1} b',
    '{Q} a, b: a {o1} b {o2} c',
    '{Q} a,b,c: a {o1} (b {o2} c)',
    'c {o1} {Q} a: a {o2} b',
    'c {o1} {Q} a: a {o2} b {o1} d',
    '~ {Q} a: a {o1} b',
    '! {Q} a: b {o1} a {o2} c',
    '({Q} a: a {o1} b) {o2} a',
    '{Q} a: {Q2} b: a {o1} b {o2} c',
    '{Q} a: (b {o1} {Q2} b: a {o2} b)',
    '{Q} d: a {o1} b',
    'ite({Q} a: a {o1} b, c, {Q2} c: c {o2} d)',
    '\\S b / a: a {o1} c',
    '\\S b/a, a/b: a {o1} ~ b {o2} c',
    '\\S b/a, b/c: a {o1} c {o2} d',
    'c {o1} \\S d/a: a {o2} b',
    '~ \\S d / a: a {o1} d',
    '(\\S b/a: a {o1} c) {o2} a',
    '\\S a/b: {Q} a: a {o1} b',
    '{Q} a: \\S a/b: a {o1} b {o2} c',
    '\\S c/a: \\S a/b: a {o1} b',
]


def binders(ctx, spec):
    rng = ctx.rng('binders', spec['order'], spec['auto'])
    m = Mgr(ctx, 'abcd', spec['order'], spec['auto'], rng)
    bad = 0
    for tpl in BINDER_TEMPLATES:
        for s1, s2 in itertools.product(SPELLINGS, repeat=2):
            for Q, Q2 in (('\\E', '\\A'), ('\\A', '\\E')):
                s = tpl.format(Q=Q, Q2=Q2, o1=s1, o2=s2)
                bad += not m.judge(s, 'binder_formulas')
                if bad > 4:
                    return
    # (c) constants, ite, comments, whitespace, node references
    for w in formula.TRUE_WORDS + formula.FALSE_WORDS:
        for s in (w, f'a /\\ {w}', f'ite({w}, a, b)', f'~ {w} \\/ c'):
            ctx.counters['constant_spellings'] += 1
            ok = m.judge(s, 'matrix_formulas', also_paren=False)
            if not ok:
                # re-key by mechanism: which constant word is concerned
                v = ctx.violations[-1]
                if w in ('true', 'false'):
                    v['site'] = 'add_expr'
                    v['symptom'] = 'documented-lowercase-constant-not-read'
                    v['key'] = f"{ctx.prop}|add_expr|{v['symptom']}"
    for n in m.nodes:
        for s in (f'@{n}', f'~ @{n}', f'a /\\ @{n}', f'@{n} => @{-n}',
                  f'\\E a: @{n}', f'ite(@{n}, a, @{-n})', f'@{n}#b',
                  f'a - @{n}', f'a-@{n}', f'@{n} - @{n}'):
            ctx.counters['node_reference_formulas'] += 1
            bad += not m.judge(s, 'matrix_formulas', also_paren=False)
    for s in ('a /\\ b \\* c \\/ d', 'a (* x *) /\\ (* y \n z *) b',
              '(* lead *) a \\/ b', 'a\t\\/\tb', 'a \n /\\ \n b',
              'a /\\ b \\* trailing ~ ( /\\', '(* ( *) a',
              'a \\/ (* \\* *) b', 'ite( a ,\n b ,\t c )',
              'a /\\ (b) (* ) *)'):
        ctx.counters['comment_formulas'] += 1
        bad += not m.judge(s, 'matrix_formulas', also_paren=False)
    ctx.sample(dict(kind='binders', order=spec['order'],
                    templates=len(BINDER_TEMPLATES),
                    example=BINDER_TEMPLATES[4].format(
                        Q='\\E', Q2='\\A', o1='/\\', o2='=>')))


def random_(ctx, spec):
    rng = ctx.rng('random', spec['sub'])
    # identifiers of every documented shape, among them ones that differ
    # from the keywords (`ite`, `TRUE/true/True`, `FALSE/false/False`)
    # only in letter case or by a suffix: all are ordinary names
    names = NAME_SETS[spec['sub'] % len(NAME_SETS)][:spec['n']]
    order = names[:]
    rng.shuffle(order)
    import dd.bdd as _b
    starts0 = _b.REORDER_STARTS
    try:
        _random(ctx, spec, rng, names, order, _b)
    finally:
        _b.REORDER_STARTS = starts0


def _random(ctx, spec, rng, names, order, _b):
    m1 = Mgr(ctx, names, order, spec['auto'], rng)
    # a second manager with another order and the other interface: the
    # translator is shared by all managers of the process
    order2 = order[::-1] if len(order) > 1 else order[:]
    m2 = Mgr(ctx, names, order2, not spec['auto'], rng)
    if spec['sub'] % 3 == 1:
        # the dd.autoref manager reorders by itself while formulas are
        # being translated (results are live Function objects)
        _b.REORDER_STARTS = 4
        for m in (m1, m2):
            if m.auto:
                m.bdd.configure(reordering=True)
                ctx.counters['managers_with_dynamic_reordering'] += 1
    bad = 0
    for k in range(spec['count']):
        depth = 1 + k % 5
        m = m1 if rng.random() < 0.75 else m2
        if rng.random() < 0.1:
            # a formula that is refused after part of it was translated
            # (undeclared name, unknown node, or syntax error at the end)
            other = m1 if rng.random() < 0.5 else m2
            tail = rng.choice((' /\\ undeclared_name', ' \\/ @987654',
                               ' /\\ (', ' => ~'))
            s0 = formula.gen(rng, names, 1 + k % 3, other.nodes) + tail
            try:
                other.bdd.add_expr(s0)
            except Exception:
                ctx.counters['refused_formulas_in_between'] += 1
            else:
                ctx.counters['damaged_formula_accepted'] += 1
        if len(names) > 1 and rng.random() < 0.08:
            # the order is changed between formulas (to a given order,
            # to adjacent pairs, or by one swap), with whatever earlier
            # formulas left in the manager's caches
            tgt = list(m.raw.vars)
            rng.shuffle(tgt)
            how = rng.randrange(3)
            if how == 0:
                lv = {v: i for i, v in enumerate(tgt)}
                if m.auto:
                    m.bdd.reorder(lv)
                else:
                    _b.reorder(m.raw, lv)
            elif how == 1:
                _b.reorder_to_pairs(m.raw, {tgt[0]: tgt[1]})
            else:
                i = rng.randrange(len(m.raw.vars) - 1)
                m.raw.swap(i, i + 1)
            m.order = tuple(sorted(m.raw.vars, key=m.raw.vars.get))
            ctx.counters['order_changes_between_formulas'] += 1
        if not m.auto and rng.random() < 0.05:
            # a variable that no formula mentions is declared and moved
            # to some level, or the one declared earlier is removed again
            # (nodes of the other variables exist above and below it)
            if m.extra is None:
                m.extra = f'unused{k}'
                m.raw.add_var(m.extra)
                tgt = list(m.raw.vars)
                rng.shuffle(tgt)
                _b.reorder(m.raw, {v: i for i, v in enumerate(tgt)})
            else:
                got = m.raw.undeclare_vars(m.extra)
                if set(got) != {m.extra}:
                    ctx.violation('undeclare_vars', 'removed-set-differs',
                                  dict(got=sorted(got), asked=m.extra))
                m.extra = None
            m.order = tuple(sorted(m.raw.vars, key=m.raw.vars.get))
            ctx.counters['variables_declared_or_removed_between_formulas'] \
                += 1
        s = formula.gen(rng, names, depth, m.nodes)
        if m.auto and k % 5 == 0 and m.bdd.configure()['reordering']:
            # a reordering is due within the next two new nodes
            m.raw._last_len = len(m.raw) // 2 + 1
            ctx.counters['formulas_with_reordering_due'] += 1
        bad += not m.judge(s, 'random_formulas', also_paren=(k % 3 == 0))
        if bad > 4:
            return
        if k < 2:
            ctx.sample(dict(kind='random', formula=s, order=order))
        if k % 100 == 99:
            # keep the managers small; nodes for @n are held
            m1.raw.collect_garbage()
            m2.raw.collect_garbage()
            for m in (m1, m2):
                if m.bdd.configure()['reordering']:
                    # low threshold again (it doubles at each reordering)
                    m.bdd.configure(reordering=True)
    monitors.check_structure(m1.raw)
    monitors.check_structure(m2.raw)


def roundtrip(ctx, spec):
    names = tuple(spec['names'])
    order = tuple(spec['order'])
    rng = ctx.rng('roundtrip', names, order)
    sp = Space(names)
    tables = None
    if spec['sample'] is not None:
        tables = sorted({rng.getrandbits(sp.size)
                         for _ in range(spec['sample'])} | {0, sp.full})
    else:
        ctx.exhaustive = True
    A = AllFunctions(names, order, tables)
    import dd.autoref as _a
    ab = _a.BDD()
    ab._bdd = A.bdd
    ab.vars = A.bdd.vars
    bad = 0
    for k, (t, r) in enumerate(A.R.items()):
        s = A.bdd.to_expr(r)
        # the printed text must mean the function (independent reading)
        if formula.meaning(s, sp) != t:
            ctx.violation('to_expr', 'text-means-other-function',
                          dict(u=sp.fmt(t), text=s, order=order))
            bad += 1
        if k % 3 == 2:
            f = _a.Function(r, ab)
            s2 = f.to_expr()
            back = ab.add_expr(s2).node
            del f
        else:
            back = A.bdd.add_expr(s)
        ctx.counters['roundtrips'] += 1
        ctx.counters['evaluations'] += 1
        if 0 < t < sp.full:
            ctx.distinct_enum += 1
        if back != r:
            ctx.violation('to_expr', 'round-trip-differs',
                          dict(u=sp.fmt(t), text=s, got=back, want=r,
                               order=order))
            bad += 1
        if bad > 3:
            return
    ctx.sample(dict(kind='roundtrip', names=names, order=order,
                    functions=len(A.tables),
                    example=A.bdd.to_expr(A.R[A.tables[len(A.tables) // 2]])))


def run_shard(ctx, spec):
    if spec['kind'] == 'big':
        from vf import big
        return ctx.guard('big', big.run, ctx, spec, case=spec)
    fn = dict(matrix=matrix, binders=binders, random=random_,
              roundtrip=roundtrip)[spec['kind']]
    ctx.guard(spec['kind'], fn, ctx, spec, case=spec)
