"""C01 - connectives and ITE compute the stated truth function."""
import itertools

from vf import monitors
from vf.common import Violation
from vf.oracle import Space, Denoter, build, BINOPS, UNOPS, QUANT_OPS
from vf.world import World

NAMES = ('a', 'b', 'c')
ORDERS = list(itertools.permutations(NAMES))

RULE = (
    'exhaustive: every ordered pair of the 256 functions of 3 variables for '
    'each of the 23 binary symbols and every function for the 3 unary '
    'symbols of apply; every ITE triple (2^24) per order; all pairs for the '
    'dd.autoref Function operators; then the same on a manager that was '
    'emptied, collected, rebuilt in another sequence and level-swapped with '
    'a warm cache; random histories over 4-8 variables, half of them '
    'with dynamic reordering enabled at a tiny threshold. A case is '
    'non-trivial when no operand is a constant; enumerated cases are '
    'distinct by construction, random ones are counted by hash of '
    '(order, operator, operand tables).')


def plan(tier, seed):
    specs = []
    orders = ORDERS if tier == 'thorough' else [ORDERS[seed % 6],
                                                ORDERS[(seed + 3) % 6]]
    syms = sorted(BINOPS) + sorted(QUANT_OPS)
    for o in orders:
        # binary symbols, split in 4 groups
        for k in range(4):
            specs.append(dict(kind='binary', order=o, syms=syms[k::4],
                              unary=(k == 0)))
        specs.append(dict(kind='function_ops', order=o))
    ite_orders = ORDERS if tier == 'thorough' else [ORDERS[(seed + 1) % 6]]
    nsh = 16
    for o in ite_orders:
        for k in range(nsh):
            specs.append(dict(kind='ite', order=o, g_lo=k * 256 // nsh,
                              g_hi=(k + 1) * 256 // nsh))
    nh = 48 if tier == 'thorough' else 3
    for k in range(nh):
        specs.append(dict(kind='history', order=ORDERS[(seed + k) % 6],
                          sub=k, hashseed=k + 1))
    nr = 64 if tier == 'thorough' else 8
    for k in range(nr):
        specs.append(dict(kind='random', sub=k, n=4 + k % 5,
                          steps=2000 if tier == 'thorough' else 350,
                          auto=(k % 4 == 3), dynamic=(k % 4 in (1, 3)),
                          hashseed=k))
    # histories in which the set of variables changes all the time
    for k in range(8 if tier == 'thorough' else 2):
        specs.append(dict(kind='random', sub=100 + k, n=4 + k % 3,
                          steps=2000 if tier == 'thorough' else 400,
                          auto=False, dynamic=False, varsets=True,
                          hashseed=k))
    # instances beyond truth tables (12-70 variables), see vf/big.py
    from vf import big
    specs.extend(big.specs(tier, seed, 'C01'))
    meta = dict(
        rule=RULE,
        require=['big_histories', 'huge_histories', 'binary_results', 'ite_results', 'function_op_results',
                 'history_results', 'steps', 'cache_entries_checked',
                 'dynamic_histories', 'refused_for_lack_of_room',
                 'histories_with_changing_variables', 'undeclare_calls',
                 'computed_with_little_room'],
        assumptions=[
            'truth-table model in vf/oracle.py (independent of dd)',
            'operands are held (incref / live Function) during the call',
            'denotation read from BDD._succ and the level map'],
        timeout=1500 if tier == 'quick' else 5400)
    return specs, meta


def setup_all(order, kind='bdd'):
    import dd.bdd as _b
    sp = Space(NAMES)
    bdd = _b.BDD({v: i for i, v in enumerate(order)})
    R = []
    for t in range(256):
        r = build(bdd, t, sp)
        bdd.incref(r)
        R.append(r)
    tt_of = dict()
    for t, r in enumerate(R):
        tt_of[r] = t
        tt_of[-r] = 255 ^ t
    # sanity of the harness itself (judged by C02, not here)
    den = Denoter(bdd, sp)
    for t, r in enumerate(R):
        if den(r) != t:
            raise Violation('find_or_add', 'wrong-result', (t, r))
    return bdd, sp, R, tt_of


MODEL = dict(
    AND=lambda i, j: i & j,
    OR=lambda i, j: i | j,
    XOR=lambda i, j: i ^ j,
    IMPLIES=lambda i, j: (255 ^ i) | j,
    EQUIV=lambda i, j: 255 ^ (i ^ j),
    DIFF=lambda i, j: i & (255 ^ j))


def quant_model(sp):
    sup = [sp.support(t) for t in range(256)]

    def fa(i, j):
        return sp.forall(j, sup[i])

    def ex(i, j):
        return sp.exists(j, sup[i])
    return fa, ex


def sweep_binary(ctx, bdd, sp, R, tt_of, syms, order, pairs=None,
                 counter='binary_results'):
    fa, ex = quant_model(sp)
    ap = bdd.apply
    NT = [0 < t < 255 for t in range(256)]
    for sym in syms:
        if sym in BINOPS:
            f = MODEL[BINOPS[sym]]
        else:
            f = fa if QUANT_OPS[sym] else ex
        bad = 0
        n = 0
        nt = 0
        it = pairs if pairs is not None else (
            (i, j) for i in range(256) for j in range(256))
        for i, j in it:
            r = ap(sym, R[i], R[j]) if (i + j) % 5 else \
                ap(op=sym, u=R[i], v=R[j])
            n += 1
            nt += NT[i] and NT[j]
            if tt_of.get(r, -1) != f(i, j):
                got = tt_of.get(r)
                if got is None:
                    try:
                        got = Denoter(bdd, sp)(r)
                    except Exception as e:
                        got = repr(e)
                if got != f(i, j):
                    bad += 1
                    ctx.violation(
                        'apply', 'wrong-result',
                        dict(op=sym, u=sp.fmt(i), v=sp.fmt(j),
                             got=got if not isinstance(got, int)
                             else sp.fmt(got), want=sp.fmt(f(i, j)),
                             order=order),
                        case=dict(op=sym, i=i, j=j, order=order))
                    if bad >= 3:
                        break
        ctx.counters['evaluations'] += n
        ctx.counters[counter] += n
        if pairs is None:
            ctx.distinct_enum += nt
        else:
            ctx.distinct.add(hash_case(order, sym, n, nt))
        ctx.note('symbols', sym)


def hash_case(*a):
    from vf.common import h64
    return h64(*a)


def sweep_unary(ctx, bdd, sp, R, tt_of, order):
    for sym in UNOPS:
        for i in range(256):
            r = bdd.apply(sym, R[i])
            if tt_of.get(r) != 255 ^ i:
                ctx.violation('apply-not', 'wrong-result',
                              dict(op=sym, u=sp.fmt(i), order=order),
                              case=dict(op=sym, i=i, order=order))
                break
        ctx.counters['evaluations'] += 256
        ctx.counters['binary_results'] += 256
        ctx.distinct_enum += 254
        ctx.note('symbols', sym)


def sweep_ite(ctx, bdd, sp, R, tt_of, order, gs, triples=None,
              counter='ite_results'):
    ite = bdd.ite
    bad = 0
    n = nt = 0
    NT = [0 < t < 255 for t in range(256)]

    def judge(g, u, v, r):
        nonlocal bad
        want = (g & u) | ((255 ^ g) & v)
        if tt_of.get(r, -1) != want:
            got = tt_of.get(r)
            if got is None:
                got = Denoter(bdd, sp)(r)
            if got != want:
                bad += 1
                ctx.violation(
                    'ite', 'wrong-result',
                    dict(g=sp.fmt(g), u=sp.fmt(u), v=sp.fmt(v),
                         got=sp.fmt(got), want=sp.fmt(want), order=order),
                    case=dict(g=g, u=u, v=v, order=order))
    if triples is not None:
        for g, u, v in triples:
            judge(g, u, v, ite(R[g], R[u], R[v]))
            n += 1
            nt += NT[g] and NT[u] and NT[v]
            if bad >= 3:
                break
        ctx.distinct.add(hash_case(order, 'ite-sample', n, nt))
    else:
        for k, g in enumerate(gs):
            rg = R[g]
            for u in range(256):
                ru = R[u]
                wu = g & u
                ng = 255 ^ g
                for v in range(256):
                    r = ite(rg, ru, R[v])
                    if tt_of.get(r, -1) != wu | (ng & v):
                        judge(g, u, v, r)
                n += 256
                if bad >= 3:
                    break
            if NT[g]:
                nt += 254 * 254
            if bad >= 3:
                break
            if k % 4 == 3:
                # operands are held: a collection only empties the cache
                ctx.counters['cache_entries_seen'] += monitors.entries(bdd._ite_table)
                bdd.collect_garbage()
        ctx.distinct_enum += nt
    ctx.counters['evaluations'] += n
    ctx.counters[counter] += n


def function_ops(ctx, order):
    import dd.autoref as _a
    sp = Space(NAMES)
    bdd = _a.BDD({v: i for i, v in enumerate(order)})
    raw = bdd._bdd
    F = []
    for t in range(256):
        F.append(_a.Function(build(raw, t, sp), bdd))
    tt_of = dict()
    for t, f in enumerate(F):
        tt_of[f.node] = t
        tt_of[-f.node] = 255 ^ t
    n = 0
    bad = 0

    def chk(name, got, want, i, j):
        nonlocal bad
        if got != want:
            bad += 1
            ctx.violation('Function.' + name, 'wrong-result',
                          dict(u=sp.fmt(i), v=sp.fmt(j), got=repr(got),
                               want=repr(want), order=order),
                          case=dict(op=name, i=i, j=j, order=order))
    for i in range(256):
        a = F[i]
        chk('__invert__', tt_of.get((~a).node), 255 ^ i, i, None)
        for j in range(256):
            b = F[j]
            chk('__and__', tt_of.get((a & b).node), i & j, i, j)
            chk('__or__', tt_of.get((a | b).node), i | j, i, j)
            chk('implies', tt_of.get(a.implies(b).node), (255 ^ i) | j, i, j)
            chk('equiv', tt_of.get(a.equiv(b).node), 255 ^ i ^ j, i, j)
            chk('__le__', a <= b, (i & (255 ^ j)) == 0, i, j)
            chk('__lt__', a < b, (i & (255 ^ j)) == 0 and i != j, i, j)
            chk('__eq__', a == b, i == j, i, j)
            chk('__ne__', a != b, i != j, i, j)
            n += 8
            if bad >= 5:
                break
        if bad >= 5:
            break
    ctx.counters['evaluations'] += n
    ctx.counters['function_op_results'] += n
    ctx.distinct_enum += 254 * 254 * 8
    del F, a, b


def history(ctx, spec):
    """The sweep on a manager with a past: warm cache, everything
    released and collected, rebuilt in another sequence (node numbers
    re-used for other functions), levels swapped."""
    order = tuple(spec['order'])
    rng = ctx.rng('history', spec['sub'])
    bdd, sp, R, tt_of = setup_all(order)
    syms = sorted(BINOPS) + sorted(QUANT_OPS)
    N = 4000 if ctx.tier == 'quick' else 20000

    def sample_pairs():
        return [(rng.randrange(256), rng.randrange(256)) for _ in range(N)]

    def sample_triples():
        return [(rng.randrange(256), rng.randrange(256), rng.randrange(256))
                for _ in range(3 * N)]

    def m5(site):
        try:
            k = monitors.check_ite_table(bdd, Denoter(bdd, sp))
        except Violation as v:
            ctx.violation(site, v.symptom, v.detail)
            k = 0
        ctx.counters['cache_entries_checked'] += k

    # 1. warm the cache
    sweep_binary(ctx, bdd, sp, R, tt_of, rng.sample(syms, 6), order,
                 sample_pairs(), 'history_results')
    sweep_ite(ctx, bdd, sp, R, tt_of, order, None, sample_triples(),
              'history_results')
    m5('ite')
    for rnd in range(3):
        # 2. release everything, collect: only the terminal remains
        for r in R:
            bdd.decref(r)
        bdd.collect_garbage()
        ctx.counters['history_collections'] += 1
        # 3. rebuild in another sequence: numbers re-used differently
        perm = list(range(256))
        rng.shuffle(perm)
        R2 = [None] * 256
        old_R = R
        for t in perm:
            r = build(bdd, t, sp)
            bdd.incref(r)
            R2[t] = r
        R = R2
        moved = sum(1 for t in range(256) if abs(R[t]) != abs(old_R[t]))
        ctx.counters['history_functions_renumbered'] += moved
        tt_of = dict()
        for t, r in enumerate(R):
            tt_of[r] = t
            tt_of[-r] = 255 ^ t
        sweep_binary(ctx, bdd, sp, R, tt_of, rng.sample(syms, 6), order,
                     sample_pairs(), 'history_results')
        m5('apply')
        # 4. swap levels with everything held and a warm cache
        for _ in range(rng.randint(1, 4)):
            i = rng.randrange(2)
            bdd.swap(i, i + 1)
            ctx.counters['history_swaps'] += 1
        order = tuple(sorted(bdd.vars, key=bdd.vars.get))
        den = Denoter(bdd, sp)
        for t, r in enumerate(R):
            if den(r) != t:
                ctx.violation('swap', 'M7-held-reference-changed-meaning',
                              dict(t=t, r=r))
                return
        sweep_ite(ctx, bdd, sp, R, tt_of, order, None, sample_triples(),
                  'history_results')
        sweep_binary(ctx, bdd, sp, R, tt_of, rng.sample(syms, 6), order,
                     sample_pairs(), 'history_results')
        m5('ite')
    ctx.sample(dict(kind='history', order=list(order), rounds=3,
                    pairs_per_sweep=N))


def random_history(ctx, spec):
    rng = ctx.rng('random', spec['sub'])
    names = [f'x{i}' for i in range(spec['n'])]
    kind = 'autoref' if spec.get('auto') else 'bdd'
    reg = None
    if kind == 'autoref':
        reg = monitors.HandleRegistry()
        reg.install()
    import dd.bdd as _b
    dynamic = spec.get('dynamic', False)
    starts0 = _b.REORDER_STARTS
    if dynamic:
        # the connectives called directly (not through `add_expr`) while
        # the library reorders by itself in the middle of them
        _b.REORDER_STARTS = 4 + spec['sub'] % 4
        ctx.counters['dynamic_histories'] += 1
    try:
        _random_history(ctx, spec, rng, names, kind, reg, dynamic)
    finally:
        _b.REORDER_STARTS = starts0
        if reg:
            reg.uninstall()


def _random_history(ctx, spec, rng, names, kind, reg, dynamic):
    w = World(ctx, rng, names, kind=kind, strict=True, registry=reg,
              reordering=dynamic)
    menu = dict(build=5, apply=14, apply_quant=2, ite=8, drop=5, gc=3,
                swap=3 if kind == 'bdd' else 0, sift=1, reorder_to=1,
                dup=1, clone=2 if kind == 'bdd' else 0, tight=4,
                **{'not': 2})
    if spec.get('varsets'):
        w.build_names = set(rng.sample(names, max(1, len(names) - 2)))
        # (a newly declared variable is at the bottom; the reorderings
        # move it above nodes before it is removed again)
        menu = dict(build=5, apply=8, ite=3, drop=4, gc=1, undeclare=5,
                    declare=4, swap=3, reorder_to=3, **{'not': 1})
        ctx.counters['histories_with_changing_variables'] += 1
    elif kind == 'bdd' and not dynamic and spec['sub'] % 4 == 2:
        # connectives in a manager whose set of variables changes: the
        # functions are built over all names but one or two, unused
        # variables (above and between the used ones) are removed while
        # nodes exist below them, new ones are declared
        w.build_names = set(rng.sample(names, max(1, len(names) - 2)))
        menu.update(undeclare=3, declare=2)
        ctx.counters['histories_with_changing_variables'] += 1
    if dynamic:
        menu.update(rearm=3, clone=0, fop=6 if kind == 'autoref' else 0)
    for k in range(spec['steps']):
        ok, res = ctx.guard(w.site, w.step, menu, case=dict(
            spec=spec, step=k, tail=w.log[-6:]))
        if not ok:
            break
        desc, den = res
        ctx.counters['cache_entries_checked'] += monitors.entries(w.raw._ite_table)
        if desc[0] in ('apply', 'ite', 'not'):
            ctx.case(True, 'random', spec['n'], desc, w.pool[-1].tt,
                     tuple(sorted(w.raw.vars.items())))
        ctx.note('states', w.state_hash() % 100000)
    ctx.sample(dict(kind='random', n=spec['n'], manager=kind,
                    last_steps=[list(map(str, d)) for d in w.log[-5:]]))
    ctx.guard('shutdown', w.finish)


def run_shard(ctx, spec):
    if spec['kind'] == 'big':
        from vf import big
        return ctx.guard('big', big.run, ctx, spec, case=spec)
    ctx.guard(spec['kind'], _run_shard, ctx, spec, case=spec)


def _run_shard(ctx, spec):
    kind = spec['kind']
    order = tuple(spec.get('order', NAMES))
    if kind == 'binary':
        bdd, sp, R, tt_of = setup_all(order)
        sweep_binary(ctx, bdd, sp, R, tt_of, spec['syms'], order)
        if spec.get('unary'):
            sweep_unary(ctx, bdd, sp, R, tt_of, order)
        ctx.exhaustive = True
        ctx.sample(dict(kind='binary', order=list(order),
                        symbols=spec['syms'], pairs=65536))
    elif kind == 'ite':
        bdd, sp, R, tt_of = setup_all(order)
        sweep_ite(ctx, bdd, sp, R, tt_of, order,
                  range(spec['g_lo'], spec['g_hi']))
        ctx.exhaustive = True
        ctx.sample(dict(kind='ite', order=list(order),
                        g_range=[spec['g_lo'], spec['g_hi']]))
    elif kind == 'function_ops':
        function_ops(ctx, order)
    elif kind == 'history':
        ctx.guard('history', history, ctx, spec, case=spec)
    elif kind == 'random':
        random_history(ctx, spec)
    else:
        raise ValueError(kind)
