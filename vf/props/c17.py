"""C17 - an operation that raises leaves the manager and all references
intact (fault enumeration)."""
import gc
import os
import pickle
import random

from vf import formula, monitors
from vf.common import Violation, EVENTS
from vf.oracle import Space, random_table, build
from vf.world import World, node_of

RULE = (
    'rejected calls injected between the steps of random histories on '
    'dd.bdd and dd.autoref managers (dynamic reordering off and on): a '
    'catalogue of ~60 kinds - undeclared variable in var / add_expr / '
    'let x3 / quantify / cube / rename; unknown or foreign node in apply '
    '/ ite / to_expr / count / pick_iter / let / @n / find_or_add; '
    'unknown operator and every wrong arity; syntax errors made from a '
    'valid formula by deleting, doubling or replacing the token at every '
    'position; conflicting add_var; reorder with a bad order (missing, '
    'extra, duplicate level); undeclare_vars of a used or unknown name; '
    'non-adjacent / out-of-range / unknown swap; find_or_add with bad '
    'level; count with too few variables; dump with unknown extension or '
    'JSON without roots; load of a missing file, wrong extension, pickle '
    'truncated at every 1/8 of its length, pickle or JSON whose levels '
    'conflict with the manager, JSON cut after every line; image / '
    'preimage with overlapping renaming; copy into a manager lacking a '
    'variable. For every injected call that raises: immediately M1-M5 '
    'and M7 (M6 for autoref), nesting flag of the reordering context '
    'reset, reordering configuration unchanged; then the history goes '
    'on (valid operations, collections, reorderings are judged as '
    'usual); at the end everything is released and only the terminal '
    'may remain. A fault point = one rejected call at one position; '
    'non-trivial when the call raised; distinct by (kind, exception '
    'class, hash of manager state).')


def plan(tier, seed):
    specs = []
    n = 48 if tier == 'thorough' else 16
    for k in range(n):
        specs.append(dict(kind='inject', sub=k, n=3 + k % 3,
                          steps=900 if tier == 'thorough' else 350,
                          auto=(k % 2 == 1), dynamic=(k % 4 >= 2),
                          hashseed=k))
    nsyn = 8 if tier == 'thorough' else 4
    for k in range(nsyn):
        specs.append(dict(kind='syntax', sub=k,
                          formulas=200 if tier == 'thorough' else 60,
                          auto=(k % 2 == 1), hashseed=k))
    for k in range(2 if tier == 'quick' else 8):
        specs.append(dict(kind='stack', sub=k, auto=(k % 2 == 0),
                          hashseed=k))
    meta = dict(
        rule=RULE,
        require=['stack_exhaustions', 'faults_injected', 'faults_raised', 'post_fault_checks',
                 'syntax_faults', 'file_faults', 'kinds_raised',
                 'steps', 'shutdown_checks'],
        assumptions=['a rejected call is one that raises; calls of the '
                     'catalogue that the library accepts are only counted',
                     'the harness ledger / live-handle registry is the '
                     'external reference count'],
        timeout=1500 if tier == 'quick' else 5400)
    return specs, meta


# ---------------------------------------------------------- catalogue
def catalogue(w, rng):
    """List of (kind, thunk). Thunks perform one call that is expected
    to be rejected."""
    bdd, raw = w.bdd, w.raw
    names = sorted(raw.vars, key=raw.vars.get)
    a = w.pick().h
    b = w.pick().h
    auto = w.kind == 'autoref'
    _a, _b = w._a, w._b
    n = len(names)
    v0 = names[0]
    cat = []
    add = lambda k, f: cat.append((k, f))
    # undeclared variables
    add('var-undeclared', lambda: bdd.var('nope'))
    add('add_expr-undeclared', lambda: bdd.add_expr(f'{v0} /\\ nope'))
    add('add_expr-undeclared-late',
        lambda: bdd.add_expr(f'({v0} \\/ ~ {names[-1]}) /\\ (nope => {v0})'))
    add('add_expr-undeclared-quantified',
        lambda: bdd.add_expr(f'\\E nope: {v0}'))
    add('add_expr-undeclared-rename',
        lambda: bdd.add_expr(f'\\S nope / {v0}: {v0}'))
    add('let-const-undeclared', lambda: bdd.let({'nope': True}, a))
    add('let-rename-undeclared-key', lambda: bdd.let({'nope': v0}, a))
    add('let-rename-undeclared-value', lambda: bdd.let({v0: 'nope'}, a))
    add('let-compose-undeclared', lambda: bdd.let({'nope': b}, a))
    add('let-bad-value-type', lambda: bdd.let({v0: 1.5}, a))
    add('quantify-undeclared', lambda: bdd.quantify(a, {'nope'}))
    add('exist-undeclared', lambda: bdd.exist(['nope', v0], a))
    add('cube-undeclared', lambda: bdd.cube({v0: True, 'nope': False}))
    # unknown / foreign nodes
    if auto:
        other = _a.BDD({v: i for i, v in enumerate(names)})
        f = other.var(v0)
        add('apply-foreign', lambda: bdd.apply('and', a, f))
        add('ite-foreign', lambda: bdd.ite(a, f, b))
        add('let-foreign', lambda: bdd.let({v0: True}, f))
        add('quantify-foreign', lambda: bdd.quantify(f, {v0}))
        add('to_expr-foreign', lambda: bdd.to_expr(f))
        add('count-foreign', lambda: bdd.count(f))
        add('support-foreign', lambda: bdd.support(f))
        add('operator-foreign', lambda: a & f)
        add('compare-foreign', lambda: a == f)
        add('Function-bad-node', lambda: _a.Function(987654, bdd))
        add('wrap-bad-node', lambda: bdd._wrap(987654))
        add('find_or_add-undeclared',
            lambda: bdd.find_or_add('nope', a, b))
    else:
        bad = 987654
        add('apply-unknown-node', lambda: bdd.apply('and', a, bad))
        add('apply-unknown-node-first', lambda: bdd.apply('or', -bad, a))
        add('ite-unknown-node', lambda: bdd.apply('ite', a, b, bad))
        add('to_expr-unknown-node', lambda: bdd.to_expr(bad))
        add('count-unknown-node', lambda: bdd.count(bad))
        add('pick_iter-unknown-node', lambda: list(bdd.pick_iter(bad)))
        add('cofactor-unknown-node', lambda: bdd.let({v0: True}, bad))
        add('rename-unknown-node', lambda: bdd.let({v0: v0}, bad))
        add('find_or_add-unknown-child',
            lambda: bdd.find_or_add(0, bad, 1))
        # one successor exists, the other does not (both positions); the
        # existing one is a held node strictly below level 0 if possible
        below = [x for x in (abs(a), abs(b))
                 if x != 1 and w.raw._succ[x][0] > 0]
        known = below[0] if below else 1
        add('find_or_add-unknown-high',
            lambda: bdd.find_or_add(0, known, bad))
        add('find_or_add-unknown-low',
            lambda: bdd.find_or_add(0, -bad, known))
        add('find_or_add-level-negative', lambda: bdd.find_or_add(-1, -1, 1))
        add('find_or_add-level-too-big', lambda: bdd.find_or_add(n, -1, 1))
        add('descendants-unknown', lambda: bdd.descendants([bad]))
        add('to_nx-unknown', lambda: _b.to_nx(bdd, {bad}))
    # the manager is full (`max_nodes` is a documented limit): an
    # operation that needs a new node fails with "full"
    # (not with dynamic reordering enabled: "full" can then strike in the
    # middle of a swap of the reordering that the operation started, and
    # a swap is not atomic - see DESIGN.md section 4, not judged)
    def full():
        old = raw.max_nodes
        raw.max_nodes = raw._min_free + 1
        try:
            return build(raw, random_table(rng, w.sp, 0.5), w.sp)
        finally:
            raw.max_nodes = old
    if not w.reordering:
        add('manager-full', full)
    add('add_expr-unknown-node', lambda: bdd.add_expr('@987654'))
    add('add_expr-unknown-node-late',
        lambda: bdd.add_expr(f'({v0} /\\ @{node_of(a)}) \\/ @-987654'))
    # operators
    add('apply-unknown-operator', lambda: bdd.apply('nand', a, b))
    add('apply-unary-with-two', lambda: bdd.apply('not', a, b))
    add('apply-binary-with-one', lambda: bdd.apply('and', a))
    add('apply-binary-with-three', lambda: bdd.apply('or', a, b, a))
    add('apply-ite-with-two', lambda: bdd.apply('ite', a, b))
    add('apply-ite-with-one', lambda: bdd.apply('ite', a))
    # declarations
    add('add_var-other-level', lambda: bdd.add_var(v0, raw.vars[v0] + 1))
    if n >= 2:
        add('add_var-other-level-zero',
            lambda: bdd.add_var(names[-1], 0))
        add('add_var-other-level-any', lambda: bdd.add_var(
            names[rng.randrange(n)], n + rng.randrange(2)))
    add('add_var-used-level', lambda: bdd.add_var('fresh_name', 0))
    # reorder
    if n >= 2:
        add('reorder-missing-variable', lambda: _reorder(
            w, {v: i for i, v in enumerate(names[1:])}))
        add('reorder-extra-variable', lambda: _reorder(
            w, {v: i for i, v in enumerate(names + ['nope'])}))
        add('reorder-unknown-variable', lambda: _reorder(
            w, {v: i for i, v in enumerate(names[:-1] + ['nope'])}))
        add('swap-same-level', lambda: raw.swap(0, 0))
        add('swap-out-of-range', lambda: raw.swap(n - 1, n))
        add('swap-negative', lambda: raw.swap(-1, 0))
        add('swap-unknown-name', lambda: raw.swap('nope', v0))
    if n >= 3:
        add('swap-non-adjacent', lambda: raw.swap(0, 2))
        add('swap-non-adjacent-names',
            lambda: raw.swap(names[0], names[2]))
    if not auto:
        add('undeclare-unknown', lambda: raw.undeclare_vars('nope'))
        used = {i for i, _, _ in raw._succ.values()}
        uv = [v for v in names if raw.vars[v] in used]
        if uv:
            add('undeclare-used', lambda: raw.undeclare_vars(uv[0]))
            add('undeclare-used-among-others',
                lambda: raw.undeclare_vars(*names))
    # queries
    sup = raw.support(node_of(a))
    if sup:
        add('count-too-few-variables', lambda: bdd.count(a, len(sup) - 1))
    add('var_at_level-unknown', lambda: bdd.var_at_level(n + 3))
    add('level_of_var-unknown', lambda: bdd.level_of_var('nope'))
    add('configure-unknown', lambda: bdd.configure(nope=1))
    # files
    add('dump-unknown-extension', lambda: bdd.dump('x.unknown', [a]))
    add('load-unknown-extension', lambda: bdd.load('x.unknown'))
    add('load-missing-pickle', lambda: bdd.load('missing.p'))
    if auto:
        add('dump-json-without-roots', lambda: bdd.dump('x.json'))
        add('load-missing-json', lambda: bdd.load('missing.json'))
    # image / preimage
    if n >= 2:
        ren = {names[0]: names[1], names[1]: names[0]}
        if auto:
            add('image-overlapping-rename',
                lambda: _a.image(a, b, ren, set()))
            add('preimage-overlapping-rename',
                lambda: _a.preimage(a, b, ren, set()))
        else:
            add('image-overlapping-rename',
                lambda: _b.image(a, b, ren, set(), bdd))
            add('preimage-overlapping-rename',
                lambda: _b.preimage(a, b, ren, set(), bdd))
            add('image-target-not-quantified',
                lambda: _b.image(a, a, {names[0]: names[1]}, set(), bdd)
                if names[1] in sup else _raise())
    return cat


def _raise():
    raise ValueError('not applicable')


def _reorder(w, order):
    if w.kind == 'bdd':
        w._b.reorder(w.raw, order)
    else:
        w.bdd.reorder(order)


def file_faults(w, rng):
    """Rejected loads of damaged or conflicting files; the files are
    produced by the library itself from another manager."""
    bdd, raw = w.bdd, w.raw
    auto = w.kind == 'autoref'
    _a, _b = w._a, w._b
    names = sorted(raw.vars, key=raw.vars.get)
    cat = []
    sp = w.sp
    # a source with the same names but another order (levels conflict)
    o = names[:]
    if len(o) >= 2:
        o = o[1:] + o[:1]
    src = _a.BDD({v: i for i, v in enumerate(o)})
    f1 = _a.Function(build(src._bdd, random_table(rng, sp, 0.9), sp), src)
    f2 = _a.Function(build(src._bdd, random_table(rng, sp, 0.9), sp), src)
    pid = os.getpid()
    src.dump(f'c{pid}.p', [f1, f2])
    src.dump(f'c{pid}.json', [f1, f2])
    # a source with extra variables inserted above (levels conflict
    # after some variables were accepted)
    # `vars` of the file lists a variable with a free, non-adjacent
    # level first, then one whose level conflicts with the manager
    n = len(names)
    ex1, ex2 = (f'extra{rng.randrange(10 ** 9)}' for _ in range(2))
    lv2 = {ex1: n + 1}
    if n >= 2:
        lv2[names[1]] = 0
        lv2[names[0]] = 1
        for i, v in enumerate(names[2:]):
            lv2[v] = i + 2
    else:
        lv2[names[0]] = 0
    lv2[ex2] = n
    o2 = sorted(lv2, key=lv2.get)
    src2 = _a.BDD(lv2)
    g = _a.Function(build(src2._bdd, random_table(rng, Space(o2), 0.9),
                          Space(o2)), src2)
    src2.dump(f'd{pid}.p', [g])
    data = open(f'c{pid}.p', 'rb').read()
    if len(names) >= 2:
        cat.append(('load-pickle-conflicting-levels',
                    lambda: bdd.load(f'c{pid}.p')))
        cat.append(('load-pickle-conflict-after-partial-declaration',
                    lambda: bdd.load(f'd{pid}.p')))
        if len(names) <= 6:
            # the same conflict through `copy_vars` (its refusal may
            # leave the variables that were declared before it)
            import dd._copy as _cv
            if w.kind == 'autoref':
                cat.append(('copy_vars-conflict-after-partial-declaration',
                            lambda: _a.copy_vars(src2, bdd)))
            else:
                cat.append(('copy_vars-conflict-after-partial-declaration',
                            lambda: _cv.copy_vars(src2._bdd, raw)))
    for k in range(1, 8):
        cut = len(data) * k // 8

        def trunc(cut=cut):
            with open(f't{pid}.p', 'wb') as fd:
                fd.write(data[:cut])
            return bdd.load(f't{pid}.p')
        cat.append((f'load-pickle-truncated', trunc))

    def garbage():
        with open(f't{pid}.p', 'wb') as fd:
            fd.write(b'not a pickle at all')
        return bdd.load(f't{pid}.p')
    cat.append(('load-pickle-garbage', garbage))

    def wrong_content():
        with open(f't{pid}.p', 'wb') as fd:
            pickle.dump(dict(vars={names[0]: 0}, succ={2: (0, -1, 7)},
                             roots=[2]), fd)
        return bdd.load(f't{pid}.p')
    cat.append(('load-pickle-dangling-node', wrong_content))
    if auto:
        lines = open(f'c{pid}.json').read().splitlines(True)
        for k in range(1, len(lines)):
            def cutjson(k=k):
                with open(f't{pid}.json', 'w') as fd:
                    fd.write(''.join(lines[:k]))
                return bdd.load(f't{pid}.json')
            cat.append(('load-json-truncated', cutjson))
        for k in range(2, len(lines) - 1):
            def badline(k=k):
                ls = lines[:]
                ls[k] = ls[k].replace('[', '[9', 1).replace('"T"', '"Q"')
                with open(f't{pid}.json', 'w') as fd:
                    fd.write(''.join(ls))
                return bdd.load(f't{pid}.json')
            cat.append(('load-json-corrupted-line', badline))

        def bad_order():
            import dd._copy as _c
            return _c.load_json(f'e{pid}.json', bdd, load_order=True)
        # a file that lacks one of the manager's variables: its order
        # cannot be imposed
        fresh = f'extra{rng.randrange(10 ** 9)}'
        o3 = names[:-1] + [fresh] if len(names) > 1 else [fresh]
        src3 = _a.BDD({v: i for i, v in enumerate(o3)})
        g3 = _a.Function(build(src3._bdd, random_table(
            rng, Space(o3), 0.9), Space(o3)), src3)
        src3.dump(f'e{pid}.json', [g3])
        del g3
        if len(names) <= 6:
            # (each such refusal leaves one more declared variable)
            cat.append(('load-json-load_order-extra-variable', bad_order))
    del f1, f2, g
    return cat


# ---------------------------------------------------------- injection
def _follow_names(w, site):
    """The set of declared names may legitimately change (a loader
    declares the variables of the file; an unused variable may be
    undeclared): re-derive the recorded tables over the new names."""
    now, was = set(w.raw.vars), set(w.sp.names)
    if now == was:
        return
    if was - now:
        # names were removed: no held function may depend on them
        try:
            w._respace(sorted(was & now))
        except ValueError as e:
            raise Violation(site, 'variable-in-use-was-undeclared', repr(e))
    if now - set(w.sp.names):
        w._respace(sorted(now))


def inject(w, ctx, kind, thunk, info):
    """Run one rejected call; judge the manager right afterwards."""
    ctx.counters['faults_injected'] += 1
    reordering = w.bdd.configure()['reordering']
    vars_before = dict(w.raw.vars)
    try:
        r = thunk()
    except BaseException as e:
        if isinstance(e, (KeyboardInterrupt, SystemExit)):
            raise
        exc = type(e).__name__
        e = None
    else:
        # accepted: nothing to judge for this property
        r = None
        ctx.counters['accepted_without_exception'] += 1
        ctx.note('accepted', kind)
        gc.collect()
        _follow_names(w, kind)
        w.check(kind)
        return None
    ctx.counters['faults_raised'] += 1
    ctx.note('raised', f'{kind}:{exc}')
    gc.collect()
    site = kind
    raw = w.raw
    if getattr(raw, '_reordering_context', False):
        raise Violation(site, 'nesting-flag-left-set', dict(info, exc=exc))
    if exc == '_NeedsReordering':
        # which exception the caller sees is C09's business (raw
        # dd.bdd.BDD.find_or_add is the place that raises the signal)
        ctx.counters['reordering_signal_seen_by_caller'] += 1
    # new names may have been declared by a loader before it refused;
    # tables are compared over the union of names
    if set(raw.vars) != set(w.sp.names):
        try:
            monitors.check_order_maps(w.bdd)
        except Violation as v:
            v.site = site
            v.detail = dict(info, exc=exc, detail=v.detail,
                            vars_before=vars_before, vars=dict(raw.vars))
            raise
        _follow_names(w, site)
    try:
        w.check(site)
    except Violation as v:
        v.detail = dict(info, exc=exc, detail=v.detail)
        raise
    ctx.counters['post_fault_checks'] += 1
    now = w.bdd.configure()['reordering']
    ctx.counters['reordering_setting_checks'] += 1
    if reordering and not now:
        # "subsequent operations behave normally": a manager on which
        # the user enabled dynamic reordering must not have it switched
        # off by a call that was refused
        raise Violation(site, 'dynamic-reordering-switched-off-by-failed-call',
                        dict(info, exc=exc))
    if now != reordering:
        # off -> on is recorded only: `_copy.load_json(load_order=True)`
        # restores the setting from the dict that `configure` returned,
        # which always enables; no statement covers the setting as such
        ctx.counters['reordering_switched_on_by_failed_call_observed'] += 1
        w.bdd.configure(reordering=reordering)
    return exc


def injected_history(ctx, spec):
    import dd.bdd as _b
    rng = ctx.rng('inject', spec['sub'])
    names = [f'x{i}' for i in range(spec['n'])]
    kind = 'autoref' if spec['auto'] else 'bdd'
    reg = None
    if kind == 'autoref':
        reg = monitors.HandleRegistry()
        reg.install()
    old = _b.REORDER_STARTS
    try:
        if spec['dynamic']:
            _b.REORDER_STARTS = 6
        w = World(ctx, rng, names, kind=kind, strict=False, registry=reg,
                  reordering=spec['dynamic'])
        menu = dict(build=6, apply=8, ite=3, quantify=2, let_const=1,
                    let_rename=1, let_compose=2, add_expr=2, dup=1, drop=6,
                    gc=4, sift=1, reorder_to=1, tight=1,
                    swap=2 if kind == 'bdd' else 0,
                    fop=3 if kind == 'autoref' else 0,
                    traverse=1 if kind == 'autoref' else 0,
                    rearm=3 if spec['dynamic'] else 0)
        kinds_raised = set()
        for k in range(spec['steps']):
            ok, res = ctx.guard(w.site, w.step, menu, case=dict(
                spec=spec, step=k,
                tail=[list(map(str, d)) for d in w.log[-6:]]))
            if not ok:
                break
            if len(w.pool) < 2:
                continue
            # inject one or two rejected calls after this step
            if rng.random() < 0.12:
                cat = file_faults(w, rng)
                special = [c for c in cat if 'truncated' not in c[0]
                           and 'corrupted' not in c[0]]
                rest = [c for c in cat if c not in special]
                cat = special + rng.sample(rest, min(len(rest), 6))
                rng.shuffle(cat)
                ctx.counters['file_fault_rounds'] += 1
                isfile = True
            else:
                cat = catalogue(w, rng)
                cat = rng.sample(cat, min(len(cat), 3))
                isfile = False
            stop = False
            for fk, thunk in cat:
                info = dict(fault=fk, manager=kind,
                            dynamic=spec['dynamic'], step=k)
                ok, exc = ctx.guard(fk, inject, w, ctx, fk, thunk, info,
                                    case=dict(spec=spec, step=k, fault=fk,
                                              tail=[list(map(str, d))
                                                    for d in w.log[-4:]]))
                thunk = None
                if not ok:
                    stop = True
                    break
                if exc:
                    kinds_raised.add(fk)
                    if isfile:
                        ctx.counters['file_faults'] += 1
                    ctx.case(True, fk, exc, w.state_hash())
                    w.log.append(('reject', fk, exc))
            cat = None
            if stop:
                break
        ctx.counters['kinds_raised'] += len(kinds_raised)
        ctx.sample(dict(kind='inject', manager=kind,
                        dynamic=spec['dynamic'],
                        kinds_raised=sorted(kinds_raised)[:12],
                        last_steps=[list(map(str, d)) for d in w.log[-5:]]))
        ok, _ = ctx.guard('shutdown', w.finish)
        ctx.counters['shutdown_checks'] += 1
    finally:
        _b.REORDER_STARTS = old
        if reg:
            reg.uninstall()


def syntax(ctx, spec):
    """Token-level damage at every position of valid formulas."""
    rng = ctx.rng('syntax', spec['sub'])
    names = ['a', 'b', 'c', 'd']
    kind = 'autoref' if spec['auto'] else 'bdd'
    reg = None
    if kind == 'autoref':
        reg = monitors.HandleRegistry()
        reg.install()
    w = World(ctx, rng, names, kind=kind, strict=False, registry=reg)
    for _ in range(4):
        t = random_table(rng, w.sp)
        w.accept('find_or_add', w.build(t), t, strict=True)
    junk = [')', '(', '/\\', '\\/', '~', ',', ':', '@', '\\E', '\\S',
            'ite', '=>', '$', '?', '/', 'nope', '@987654', '']
    for it in range(spec['formulas']):
        nodes = [node_of(e.h) for e in w.pool[:3]]
        s = formula.gen(rng, names, rng.randint(2, 4), nodes)
        toks = [v for k, v in formula.tokenize(s)]
        for i in range(len(toks) + 1):
            mode = rng.randrange(3)
            t2 = toks[:]
            if mode == 0 and i < len(toks):
                del t2[i]
            elif mode == 1 and i < len(toks):
                t2[i] = rng.choice(junk)
            else:
                t2.insert(i, rng.choice(junk))
            s2 = ' '.join(t2)
            info = dict(formula=s2, manager=kind)
            ok, exc = ctx.guard('add_expr-syntax', inject, w, ctx,
                                'add_expr-syntax',
                                lambda: w.bdd.add_expr(s2), info,
                                case=dict(formula=s2, manager=kind))
            if not ok:
                ctx.guard('shutdown', w.finish)
                return
            if exc:
                ctx.counters['syntax_faults'] += 1
                ctx.case(True, 'syntax', s2)
        # a valid operation and a collection after the damage
        ok, _ = ctx.guard('step', w.step, dict(apply=3, add_expr=3, gc=2,
                                               drop=1, build=2))
        if not ok:
            break
        if it == 0:
            ctx.sample(dict(kind='syntax', valid=s, damaged=s2))
    ctx.counters['kinds_raised'] += 1
    ok, _ = ctx.guard('shutdown', w.finish)
    ctx.counters['shutdown_checks'] += 1
    if reg:
        reg.uninstall()


def stack(ctx, spec):
    """Calls that fail by exhausting the call stack (`RecursionError`
    with the interpreter's default limit) on diagrams over more than a
    thousand levels: afterwards structure and reference counts are intact,
    work goes on, and everything can be released."""
    import collections
    import sys
    import dd.autoref as _a
    import dd.bdd as _b
    import dd._copy as _c
    rng = ctx.rng('stack', spec['sub'])
    auto = spec['auto']
    reg = None
    if auto:
        reg = monitors.HandleRegistry()
        reg.install()
    limit = sys.getrecursionlimit()
    pid = os.getpid()
    try:
        n = rng.choice((1100, 1300, 1500))
        names = [f'v{i}' for i in range(n)]
        bdd = _a.BDD() if auto else _b.BDD()
        bdd.declare(*names)
        raw = bdd._bdd if auto else bdd
        ext = collections.Counter()
        f = bdd.cube({v: rng.random() < 0.7 for v in names})
        g = bdd.false
        if not auto:
            raw.incref(f)
            ext[abs(f)] += 1
            raw.incref(g)
        for v in reversed(names):
            x = bdd.var(v)
            g2 = bdd.apply('xor', g, x)
            if not auto:
                raw.incref(g2)
                raw.decref(g)
            g = g2
        del x, g2
        if not auto:
            ext[abs(g)] += 1
        other = _a.BDD() if auto else _b.BDD()
        other.declare(*names)

        def external():
            if auto:
                return collections.Counter(reg.external(raw))
            return ext

        def intact(site):
            gc.collect()
            try:
                monitors.check_structure(raw)
                monitors.check_order_maps(bdd)
                monitors.check_ledger(raw, external())
            except Violation as v:
                v.site = site
                raise
            ctx.counters['post_fault_checks'] += 1
        intact('build')
        calls = [
            ('to_expr', lambda: bdd.to_expr(g)),
            ('count', lambda: bdd.count(g)),
            ('support', lambda: bdd.support(g)),
            ('copy', lambda: bdd.copy(g, other)),
            ('exist', lambda: bdd.exist([names[-2]], g)),
            ('let-const', lambda: bdd.let({names[-2]: False}, g)),
            ('let-rename', lambda: bdd.let({names[-1]: names[0]}, f)),
            ('apply', lambda: bdd.apply('and', f, g)),
            ('dump-pickle', lambda: bdd.dump(f's{pid}.p', [g])),
            ('descendants', lambda: raw.descendants([g if not auto
                                                     else g.node])),
        ]
        if auto:
            calls += [
                ('dump-json', lambda: bdd.dump(f's{pid}.json', [f])),
                ('_copy.copy_bdd', lambda: _c.copy_bdd(g, other)),
                ('Function.to_expr', lambda: g.to_expr()),
                ('len', lambda: len(g)),
            ]
        rng.shuffle(calls)
        sys.setrecursionlimit(1000)
        for name, fn in calls:
            site = 'stack-exhausted-in-' + name
            try:
                r = fn()
            except RecursionError:
                r = None
                ctx.counters['faults_raised'] += 1
                ctx.counters['stack_exhaustions'] += 1
                ctx.note('raised', site + ':RecursionError')
            except Exception as e:
                ctx.note('raised', f'{site}:{type(e).__name__}')
                ctx.counters['faults_raised'] += 1
            else:
                ctx.counters['accepted_without_exception'] += 1
            r = None
            ctx.counters['faults_injected'] += 1
            sys.setrecursionlimit(limit)
            ok, _ = ctx.guard(site, intact, site, case=dict(spec=spec,
                                                            call=name))
            ctx.case(True, 'stack', name, n, auto)
            if not ok:
                return
            sys.setrecursionlimit(1000)
        sys.setrecursionlimit(limit)
        # work goes on: a valid operation, a JSON round trip (scratch
        # shelf left clean ?), collection, release of everything
        h = bdd.apply('or', f, g)
        if not auto:
            raw.incref(h)
            ext[abs(h)] += 1
        intact('after-valid-operation')
        if auto:
            bdd.dump(f's{pid}.json', [f])
            back = bdd.load(f's{pid}.json')
            if back[0] != f:
                raise Violation('load-json', 'round-trip-differs', None)
            del back
        bdd.collect_garbage()
        intact('collect_garbage')
        if not auto:
            for u in (f, g, h):
                raw.decref(u)
            ext.clear()
        del f, g, h
        gc.collect()
        bdd.collect_garbage()
        if len(raw) != 1:
            raise Violation('shutdown',
                            'nodes-left-after-releasing-everything', len(raw))
        ctx.counters['shutdown_checks'] += 1
    finally:
        sys.setrecursionlimit(limit)
        for fn in (f's{pid}.p', f's{pid}.json'):
            if os.path.exists(fn):
                os.remove(fn)
        if reg:
            reg.uninstall()


def run_shard(ctx, spec):
    fn = dict(inject=injected_history, syntax=syntax,
              stack=stack)[spec['kind']]
    ctx.guard(spec['kind'], fn, ctx, spec, case=spec)
