"""C03 - quantification equals the disjunction/conjunction of cofactors."""
from vf import monitors
from vf.common import Violation
from vf.oracle import Denoter
from vf.sweep import AllFunctions, subsets, orders
from vf.world import World

RULE = (
    'all 256 functions of 3 variables x all 8 subsets x both quantifiers x '
    'all 6 orders, through quantify / exist / forall (names as set, list, '
    'levels) and the quantifier forms of apply, for dd.bdd and dd.autoref; '
    'all 65536 functions of 4 variables x all 16 subsets x both quantifiers '
    '(all 24 orders thorough; sampled functions and 4 orders quick); on a '
    'fresh manager and on a long-lived one with collections and swaps '
    'between calls. Oracle: exists/forall on truth tables; the result must '
    'not depend on a quantified variable and must be the same reference '
    'when no quantified variable is in the support. Non-trivial: the '
    'function depends on at least one quantified variable; enumerated '
    'cases are distinct by construction.')


def plan(tier, seed):
    specs = []
    n3 = ('a', 'b', 'c')
    for k, o in enumerate(orders(n3, 'thorough', seed, 6)):
        specs.append(dict(kind='all', names=n3, order=o, sample=None,
                          hashseed=k))
        specs.append(dict(kind='used', names=n3, order=o, hashseed=k + 6))
    n4 = ('a', 'b', 'c', 'd')
    if tier == 'thorough':
        for k, o in enumerate(orders(n4, tier, seed, 24)):
            specs.append(dict(kind='all', names=n4, order=o, sample=None,
                              hashseed=k))
    else:
        for k, o in enumerate(dict.fromkeys(orders(n4, tier, seed, 6))):
            specs.append(dict(kind='all', names=n4, order=o, sample=8000,
                              sub=k, hashseed=k))
    nh = 96 if tier == 'thorough' else 12
    for k in range(nh):
        specs.append(dict(kind='history', sub=k, n=3 + k % 4,
                          steps=3000 if tier == 'thorough' else 600,
                          auto=(k % 3 == 1), hashseed=k))
    # instances beyond truth tables (12-70 variables), see vf/big.py
    from vf import big
    specs.extend(big.specs(tier, seed, 'C03'))
    meta = dict(
        rule=RULE,
        require=['big_histories', 'huge_histories', 'quantify_results', 'apply_form_results', 'same_ref_checks',
                 'steps', 'autoref_results', 'level_arg_results'],
        assumptions=['truth-table model in vf/oracle.py',
                     'operands held during the call'],
        timeout=1500 if tier == 'quick' else 5400)
    return specs, meta


def sweep(ctx, A, entry='mixed'):
    """Every held function x every subset x both quantifiers."""
    bdd, sp = A.bdd, A.sp
    subs = list(subsets(A.names))
    n = nt = same = 0
    bad = 0
    for fa in (False, True):
        model = sp.forall if fa else sp.exists
        for S in subs:
            Sset = set(S)
            levels = {bdd.vars[v] for v in S}
            for k, (t, r) in enumerate(A.R.items()):
                how = (k + len(S)) % 8
                if how == 4:
                    got = bdd.quantify(u=r, qvars=tuple(S), forall=fa)
                elif how == 5:
                    got = bdd.quantify(r, (v for v in S), fa)
                elif how == 6:
                    got = (bdd.forall if fa else bdd.exist)(
                        frozenset(S), r)
                elif how == 7:
                    got = (bdd.forall if fa else bdd.exist)(
                        {v: None for v in S}.keys(), u=r)
                elif how == 0:
                    got = bdd.quantify(r, Sset, forall=fa)
                elif how == 1:
                    got = (bdd.forall if fa else bdd.exist)(list(S), r)
                elif how == 2:
                    got = bdd.quantify(r, iter(S), fa)
                else:
                    got = bdd.quantify(r, levels, forall=fa)
                    ctx.counters['level_arg_results'] += 1
                want = model(t, S)
                n += 1
                dep = want != t
                nt += dep
                g = A.tt_of.get(got)
                if g is None:
                    g = Denoter(bdd, sp)(got)
                if g != want:
                    bad += 1
                    ctx.violation(
                        'quantify', 'wrong-result',
                        dict(u=sp.fmt(t), qvars=S, forall=fa, how=how,
                             got=sp.fmt(g), want=sp.fmt(want),
                             order=A.order),
                        case=dict(t=t, qvars=S, forall=fa, order=A.order))
                    if bad > 3:
                        return
                if not dep and not (sp.support(t) & Sset):
                    same += 1
                    if got != r:
                        bad += 1
                        ctx.violation(
                            'quantify',
                            'variables-outside-support-changed-reference',
                            dict(u=sp.fmt(t), qvars=S, got=got, r=r))
    ctx.counters['evaluations'] += n
    ctx.counters['quantify_results'] += n
    ctx.counters['same_ref_checks'] += same
    ctx.distinct_enum += nt


def apply_forms(ctx, A, rng, N):
    bdd, sp = A.bdd, A.sp
    ts = A.tables
    for sym, fa in (('\\A', True), ('forall', True), ('\\E', False),
                    ('exists', False)):
        model = sp.forall if fa else sp.exists
        for _ in range(N):
            a, b = rng.choice(ts), rng.choice(ts)
            got = bdd.apply(sym, A.R[a], A.R[b])
            want = model(b, sp.support(a))
            ctx.case(want != b, 'apply-q', A.order, sym, a, b)
            ctx.counters['apply_form_results'] += 1
            if A.table(got) != want:
                ctx.violation('apply-quantifier', 'wrong-result',
                              dict(op=sym, u=sp.fmt(a), v=sp.fmt(b),
                                   got=sp.fmt(A.table(got)),
                                   want=sp.fmt(want), order=A.order))
                return


def autoref_sweep(ctx, A, rng, N):
    """Same judgement through dd.autoref entry points on the manager of
    `A` (wrapped)."""
    import dd.autoref as _a
    ab = _a.BDD()
    ab._bdd = A.bdd
    ab.vars = A.bdd.vars
    sp = A.sp
    subs = list(subsets(A.names))
    for _ in range(N):
        t = rng.choice(A.tables)
        S = rng.choice(subs)
        fa = rng.random() < 0.5
        u = _a.Function(A.R[t], ab)
        how = rng.randrange(3)
        if how == 0:
            g = ab.quantify(u, set(S), forall=fa)
        elif how == 1:
            g = (ab.forall if fa else ab.exist)(S, u)
        else:
            g = (u.forall if fa else u.exist)(*S) if hasattr(u, 'forall') \
                else ab.quantify(u, S, fa)
        want = (sp.forall if fa else sp.exists)(t, S)
        ctx.case(want != t, 'autoref-q', A.order, t, S, fa)
        ctx.counters['autoref_results'] += 1
        if A.table(g.node) != want:
            ctx.violation('autoref.quantify', 'wrong-result',
                          dict(u=sp.fmt(t), qvars=S, forall=fa,
                               got=sp.fmt(A.table(g.node)),
                               want=sp.fmt(want)))
            return
        del u, g


def all_(ctx, spec):
    names = tuple(spec['names'])
    order = tuple(spec['order'])
    rng = ctx.rng('all', names, order)
    tables = None
    if spec['sample'] is not None:
        full = (1 << (1 << len(names))) - 1
        tables = sorted({rng.getrandbits(1 << len(names))
                         for _ in range(spec['sample'])} | {0, full})
    else:
        ctx.exhaustive = True
    A = AllFunctions(names, order, tables)
    sweep(ctx, A)
    apply_forms(ctx, A, rng, 300 if ctx.tier == 'quick' else 3000)
    autoref_sweep(ctx, A, rng, 1500 if ctx.tier == 'quick' else 10000)
    ctx.sample(dict(kind='all', names=names, order=order,
                    functions=len(A.tables), subsets=1 << len(names)))
    monitors.check_structure(A.bdd)
    monitors.check_ledger(A.bdd, _ext(A))


def _ext(A):
    import collections
    ext = collections.Counter()
    for r in A.R.values():
        ext[abs(r)] += 1
    return ext


def used(ctx, spec):
    """The sweep on a long-lived manager: collections (cache reset),
    swaps with everything held, between blocks of calls."""
    names = tuple(spec['names'])
    order = tuple(spec['order'])
    rng = ctx.rng('used', order)
    A = AllFunctions(names, order)
    sweep(ctx, A)
    for rnd in range(3):
        A.bdd.collect_garbage()
        for _ in range(rng.randint(1, 3)):
            i = rng.randrange(len(names) - 1)
            A.bdd.swap(i, i + 1)
        A.order = tuple(sorted(A.bdd.vars, key=A.bdd.vars.get))
        den = Denoter(A.bdd, A.sp)
        for t, r in A.R.items():
            if den(r) != t:
                raise Violation('swap', 'M7-held-reference-changed-meaning',
                                (t, r))
        sweep(ctx, A)
        apply_forms(ctx, A, rng, 200)
    ctx.sample(dict(kind='used', order=order, rounds=3))


def history(ctx, spec):
    rng = ctx.rng('history', spec['sub'])
    names = [f'x{i}' for i in range(spec['n'])]
    kind = 'autoref' if spec['auto'] else 'bdd'
    reg = None
    if kind == 'autoref':
        reg = monitors.HandleRegistry()
        reg.install()
    dynamic = spec['sub'] % 2 == 1
    if dynamic:
        import dd.bdd as _b
        _b.REORDER_STARTS = 5 + spec['sub'] % 7
        ctx.counters['dynamic_reordering_histories'] += 1
    w = World(ctx, rng, names, kind=kind, strict=True, registry=reg,
              reordering=dynamic)
    menu = dict(build=5, quantify=14, apply_quant=6, apply=3, drop=4, gc=3,
                swap=3 if kind == 'bdd' else 0, sift=1, reorder_to=1)
    if kind == 'autoref':
        menu['fop'] = 4
    if dynamic:
        menu.update(rearm=4, apply_quant=14, swap=0, sift=0, reorder_to=0)
    for k in range(spec['steps']):
        ok, res = ctx.guard(w.site, w.step, menu, case=dict(
            spec=spec, step=k, tail=[list(map(str, d)) for d in w.log[-6:]]))
        if not ok:
            return
        desc, den = res
        if desc[0] in ('quantify', 'apply'):
            ctx.case(True, 'hist', spec['n'], desc, w.pool[-1].tt,
                     tuple(sorted(w.raw.vars.items())))
            ctx.counters['quantify_results'] += 1
    ctx.sample(dict(kind='history', n=spec['n'], manager=kind,
                    last_steps=[list(map(str, d)) for d in w.log[-5:]]))
    ctx.guard('shutdown', w.finish)
    if reg:
        reg.uninstall()


def run_shard(ctx, spec):
    if spec['kind'] == 'big':
        from vf import big
        return ctx.guard('big', big.run, ctx, spec, case=spec)
    fn = dict(all=all_, used=used, history=history)[spec['kind']]
    ctx.guard(spec['kind'], fn, ctx, spec, case=spec)
