"""C02 - canonical form: references equal iff functions equal; the
stored diagram is reduced and ordered at every moment."""
import itertools
import os

from vf import monitors
from vf.common import Violation
from vf.oracle import Space, Denoter, build
from vf.world import World, node_of

RULE = (
    'all 256 functions of 3 variables under all 6 orders, each built by 10 '
    'routes (node by node, ite/var, DNF by connectives, add_expr of DNF '
    'text, add_expr(to_expr), rename into place, compose with variables, '
    'cofactor-expand, pickle dump+load, copy from a manager with another '
    'order): every route must return the same integer, the 256 references '
    'must be pairwise different, constants only for constant tables; all '
    '65536 functions of 4 variables under all 24 orders by two routes '
    '(thorough; sampled in quick); histories interleaving operations, '
    'collections, swaps, sifting, declarations and undeclarations with '
    'M1 (reduced, ordered, unique), M2, M3 (pairwise distinct denotations) '
    'after every step. A case is non-trivial when the function is not '
    'constant; enumerated cases are distinct by construction.')


def plan(tier, seed):
    specs = []
    names3 = ('a', 'b', 'c')
    for k, o in enumerate(itertools.permutations(names3)):
        for auto in (False, True):
            specs.append(dict(kind='routes3', order=o, auto=auto,
                              hashseed=k))
    names4 = ('a', 'b', 'c', 'd')
    orders4 = list(itertools.permutations(names4))
    if tier == 'thorough':
        for o in orders4:
            specs.append(dict(kind='all4', order=o, sample=None))
    else:
        for k in range(8):
            o = orders4[(seed * 7 + k * 5) % 24]
            specs.append(dict(kind='all4', order=o, sample=8000, sub=k))
    nh = 128 if tier == 'thorough' else 16
    for k in range(nh):
        specs.append(dict(kind='history', sub=k, n=3 + k % 4,
                          steps=3000 if tier == 'thorough' else 500,
                          auto=(k % 3 == 2), dynamic=(k % 4 == 1 or
                                                      k % 6 == 2),
                          hashseed=k))
    for k in range(24 if tier == 'thorough' else 4):
        specs.append(dict(kind='json', sub=k,
                          rounds=600 if tier == 'thorough' else 60,
                          hashseed=k))
    # instances beyond truth tables (12-70 variables), see vf/big.py
    from vf import big
    specs.extend(big.specs(tier, seed, 'C02'))
    meta = dict(
        rule=RULE,
        require=['big_histories', 'route_results', 'all4_functions', 'steps',
                 'quiescent_checks', 'route_nodes', 'route_copy',
                 'route_pickle', 'route_expr', 'dynamic_histories',
                 'built_through_autoref_find_or_add',
                 'json_loads_into_reordering_manager',
                 'json_loads_with_order', 'json_roots_compared'],
        assumptions=[
            'truth-table model in vf/oracle.py',
            'find_or_add is called by the harness only with children '
            'strictly below the given level (its documented contract)'],
        timeout=1500 if tier == 'quick' else 5400)
    return specs, meta


def routes3(ctx, spec):
    order = tuple(spec['order'])
    kind = 'autoref' if spec['auto'] else 'bdd'
    reg = None
    if kind == 'autoref':
        reg = monitors.HandleRegistry()
        reg.install()
    rng = ctx.rng('routes3', order, kind)
    w = World(ctx, rng, ('a', 'b', 'c'), kind=kind, order=list(order),
              registry=reg)
    sp = w.sp
    refs = dict()
    # every function by the first route, all held
    for t in range(256):
        h = w.build(t)
        w.accept('find_or_add', h, t, strict=True)
        refs[t] = node_of(h)
    # bijection
    if len(set(refs.values())) != 256:
        raise Violation('find_or_add', 'different-functions-same-reference',
                        None)
    for t, r in refs.items():
        if (r == 1) != (t == 255) or (r == -1) != (t == 0):
            raise Violation('find_or_add', 'constant-comparison-wrong',
                            (t, r))
        if refs[255 ^ t] != -r:
            raise Violation('find_or_add', 'complement-not-negation', (t, r))
    w.check('find_or_add')
    routes = [r for r in World.ROUTES if r != 'nodes']
    for name in routes:
        for t in range(256):
            h = w.route(name, t)
            ctx.counters['evaluations'] += 1
            ctx.counters['route_results'] += 1
            ctx.counters['route_' + name] += 1
            if 0 < t < 255:
                ctx.distinct_enum += 1
            if node_of(h) != refs[t]:
                raise Violation(name, 'same-function-different-reference',
                                dict(route=name, table=sp.fmt(t),
                                     got=node_of(h), want=refs[t],
                                     order=order, manager=kind))
            del h
        w.check(name)
    ctx.counters['route_nodes'] += 256
    ctx.sample(dict(kind='routes3', order=list(order), manager=kind,
                    routes=list(World.ROUTES), functions=256))
    ctx.exhaustive = True
    w.finish()
    if reg:
        reg.uninstall()


def all4(ctx, spec):
    import dd.bdd as _b
    order = tuple(spec['order'])
    names = ('a', 'b', 'c', 'd')
    sp = Space(names)
    rng = ctx.rng('all4', order)
    bdd = _b.BDD({v: i for i, v in enumerate(order)})
    if spec['sample'] is None:
        tables = range(65536)
        ctx.exhaustive = True
    else:
        tables = sorted({rng.getrandbits(16) for _ in range(spec['sample'])})
    refs = dict()
    n = 0
    for t in tables:
        r = build(bdd, t, sp)
        bdd.incref(r)
        refs[t] = r
        n += 1
    ctx.counters['all4_functions'] += n
    # bijection table <-> reference, judged by an independent denotation
    den = Denoter(bdd, sp)
    inv = dict()
    for t, r in refs.items():
        if den(r) != t:
            raise Violation('find_or_add', 'wrong-result', (sp.fmt(t), r))
        if r in inv:
            raise Violation('find_or_add',
                            'different-functions-same-reference',
                            (sp.fmt(t), sp.fmt(inv[r]), r))
        inv[r] = t
        if (abs(r) == 1) != (t in (0, sp.full)):
            raise Violation('find_or_add', 'constant-comparison-wrong',
                            (t, r))
    monitors.check_structure(bdd)
    monitors.check_order_maps(bdd)
    monitors.check_canonicity(bdd, den)
    ctx.counters['quiescent_checks'] += 1
    # second route: ite on variables, bottom up (Shannon expansion)
    xs = {v: bdd.var(v) for v in names}
    for v in xs.values():
        bdd.incref(v)
    bad = 0
    for t in tables:
        v = order[0]
        lo, hi = sp.cof(t, v, 0), sp.cof(t, v, 1)
        if lo in refs and hi in refs:
            r = bdd.ite(xs[v], refs[hi], refs[lo])
        else:
            r = bdd.add_expr(World.dnf_text(_SP(sp), t))
        ctx.counters['evaluations'] += 1
        ctx.counters['route_results'] += 1
        if t not in (0, sp.full):
            ctx.distinct_enum += 1
        if r != refs[t]:
            bad += 1
            ctx.violation('ite', 'same-function-different-reference',
                          dict(table=sp.fmt(t), got=r, want=refs[t],
                               order=order))
            if bad > 3:
                break
    monitors.check_structure(bdd)
    monitors.check_canonicity(bdd)
    ctx.counters['quiescent_checks'] += 1
    ctx.sample(dict(kind='all4', order=list(order), functions=n,
                    nodes=len(bdd)))
    # swap every adjacent pair once with everything held; still canonical
    for i in (0, 1, 2):
        bdd.swap(i, i + 1)
        ctx.counters['swap_calls'] += 1
        monitors.check_structure(bdd)
        monitors.check_order_maps(bdd)
        den = monitors.check_canonicity(bdd)
        for t, r in refs.items():
            if den(r) != t:
                raise Violation('swap', 'M7-held-reference-changed-meaning',
                                (sp.fmt(t), r))
        ctx.counters['quiescent_checks'] += 1


class _SP:
    """Minimal stand-in so `World.dnf_text` can be used without a World."""

    def __init__(self, sp):
        self.sp = sp


def history(ctx, spec):
    rng = ctx.rng('history', spec['sub'])
    names = [f'x{i}' for i in range(spec['n'])]
    kind = 'autoref' if spec['auto'] else 'bdd'
    reg = None
    if kind == 'autoref':
        reg = monitors.HandleRegistry()
        reg.install()
    import dd.bdd as _b
    dynamic = spec.get('dynamic', False)
    starts0 = _b.REORDER_STARTS
    if dynamic:
        # canonical "for every history": also histories in which the
        # library reorders by itself in the middle of operations
        _b.REORDER_STARTS = 4 + spec['sub'] % 4
    try:
        _history(ctx, spec, rng, names, kind, reg, dynamic)
    finally:
        _b.REORDER_STARTS = starts0
        if reg:
            reg.uninstall()


def _history(ctx, spec, rng, names, kind, reg, dynamic):
    w = World(ctx, rng, names, kind=kind, strict=False, registry=reg,
              reordering=dynamic)
    menu = dict(build=6, apply=8, ite=4, quantify=2, let_const=2,
                let_rename=2, let_compose=2, add_expr=2, drop=6, gc=4,
                swap=4 if kind == 'bdd' else 0, sift=2, reorder_to=2,
                pairs=1 if kind == 'bdd' else 0, declare=2,
                undeclare=2 if kind == 'bdd' else 0, canon=10,
                copy_roundtrip=2, dump_load=2,
                gc_rooted=1, clone=1 if kind == 'bdd' else 0)
    if kind == 'bdd' and not dynamic and spec['sub'] % 2 == 0:
        # functions are built over all names but one or two, so that
        # declared-but-unused variables sit above and between used ones
        # and are removed while nodes exist below them
        w.build_names = set(rng.sample(names, max(1, len(names) - 2)))
        menu.update(undeclare=5, declare=3)
        ctx.counters['histories_with_unused_variables'] += 1
    if dynamic:
        # (steps that keep an unreferenced dd.bdd result across another
        # operation are left out: reordering may legitimately free it)
        menu.update(rearm=4, gc_rooted=0, clone=0, canon=0, dump_load=0,
                    undeclare=0, declare=0)
        ctx.counters['dynamic_histories'] += 1
    for k in range(spec['steps']):
        ok, res = ctx.guard(w.site, w.step, menu, case=dict(
            spec=spec, step=k, tail=[list(map(str, d)) for d in w.log[-6:]]))
        if not ok:
            return
        desc, den = res
        ctx.case(len(w.raw) > 1, 'hist', spec['sub'], w.state_hash())
        # equality of references decides equality of functions
        seen = dict()
        for e in w.pool:
            u = node_of(e.h)
            if seen.setdefault(e.tt, u) != u:
                ctx.violation(desc[0], 'same-function-different-reference',
                              dict(table=w.sp.fmt(e.tt), refs=(seen[e.tt], u)))
                return
    ctx.sample(dict(kind='history', n=spec['n'], manager=kind,
                    last_steps=[list(map(str, d)) for d in w.log[-6:]]))
    ctx.guard('shutdown', w.finish)


def json_loads(ctx, spec):
    """Several roots over 5-9 variables written as JSON and loaded into a
    dd.autoref manager on which dynamic reordering is enabled with a low
    threshold (with and without the variable order of the file): the
    receiving manager is reduced and ordered afterwards, and each loaded
    root is the reference that a node-by-node construction of the same
    function gives there."""
    import dd.bdd as _b
    rng = ctx.rng('json', spec['sub'])
    starts0 = _b.REORDER_STARTS
    try:
        for rnd in range(spec['rounds']):
            ok, _ = ctx.guard('json', _json_round, ctx, rng,
                              case=dict(spec=spec, round=rnd))
            if not ok:
                break
    finally:
        _b.REORDER_STARTS = starts0
        for f in os.listdir('.'):
            if f.startswith(f'c02j{os.getpid()}'):
                os.remove(f)


def _json_round(ctx, rng):
    import dd.bdd as _b
    import dd.autoref as _a
    import dd._copy as _c
    n = rng.randint(5, 9)
    names = [f'v{i}' for i in range(n)]
    order = names[:]
    rng.shuffle(order)
    sp = Space(names)
    _b.REORDER_STARTS = starts = rng.randint(3, 14)
    src = _a.BDD({v: i for i, v in enumerate(order)})
    tabs, hs = [], []
    for _ in range(rng.randint(2, 6)):
        sub = Space(sorted(rng.sample(names, rng.randint(1, 4))))
        t = 0b10 if len(sub.names) == 1 and rng.random() < 0.7 else \
            rng.getrandbits(sub.size)
        t = sub.lift(t, sp)
        tabs.append(t)
        hs.append(_a.Function(build(src._bdd, t, sp), src))
    as_dict = rng.random() < 0.5
    roots = {f'r{i}': h for i, h in enumerate(hs)} if as_dict else list(hs)
    fn = f'c02j{os.getpid()}.json'
    _c.dump_json(roots, fn)
    tgt = _a.BDD()
    pre = rng.random() < 0.3
    if pre:
        # the same variables, declared beforehand in another order
        other = names[:]
        rng.shuffle(other)
        tgt.declare(*other)
    tgt.configure(reordering=True)
    load_order = rng.random() < 0.6
    info = dict(names=names, source_order=order, tables=[sp.fmt(t)
                for t in tabs], load_order=load_order, as_dict=as_dict,
                reorder_starts=starts, predeclared=pre)
    try:
        back = _c.load_json(fn, tgt, load_order=load_order)
    finally:
        os.remove(fn)
    ctx.counters['json_loads_into_reordering_manager'] += 1
    ctx.counters['json_loads_with_order'] += bool(load_order)
    ctx.case(any(0 < t < sp.full for t in tabs), 'json', n, tuple(order),
             tuple(tabs), load_order, pre, starts)
    raw = tgt._bdd
    try:
        monitors.check_structure(raw)
        monitors.check_order_maps(tgt)
        monitors.check_canonicity(raw)
    except Violation as v:
        v.site = 'load-json'
        v.detail = dict(info, detail=repr(v.detail)[:600])
        raise
    if dict(raw.vars) != dict(src._bdd.vars):
        ctx.counters['json_loads_ending_in_another_order'] += 1
    vals = list(back.values()) if as_dict else list(back)
    if as_dict and list(back) != list(roots):
        raise Violation('load-json', 'root-names-differ', info)
    # (the reference construction below adds nodes to the raw manager,
    # which asks for a reordering that only public entry points serve)
    if not tgt.configure(reordering=False)['reordering']:
        ctx.counters['json_loads_that_left_reordering_off'] += 1
    for t, h in zip(tabs, vals):
        want = build(raw, t, sp)
        ctx.counters['json_roots_compared'] += 1
        if h.node != want:
            raise Violation('load-json', 'same-function-different-reference',
                            dict(info, table=sp.fmt(t), loaded=h.node,
                                 built=want, order=dict(raw.vars)))
    del back, vals, roots, hs, h


def run_shard(ctx, spec):
    if spec['kind'] == 'big':
        from vf import big
        return ctx.guard('big', big.run, ctx, spec, case=spec)
    fn = dict(routes3=routes3, all4=all4, history=history,
              json=json_loads)[spec['kind']]
    ctx.guard(spec['kind'], fn, ctx, spec, case=spec)
