"""C09 - dynamic reordering is invisible (fault enumeration at the
reordering request)."""
import os
import random

from vf import formula, monitors
from vf.common import Violation
from vf.oracle import Space, Denoter, build, random_table
from vf.world import World, node_of

RULE = (
    'failpoint on dd.bdd._request_reordering (the only place the signal '
    'is raised; counted only while requests are armed): for each '
    'operation O in {apply with 8 symbols, Function operators, ite, '
    'quantify/exist/forall, let x3, cube, var, add_expr, copy into the '
    'manager (BDD.copy, copy_bdd, _copy.copy_bdd), load (pickle; JSON), '
    'image, preimage, autoref find_or_add} a dry run counts the K '
    'requests it makes, then k = 1..K+1 are each executed on a freshly '
    'rebuilt identical manager with the signal forced at request k '
    '(K+1 = control, never fires). Judged per fired point: caller never '
    'sees the signal or another exception, result == model, operands and '
    'bystanders keep number/table/count (M7, M4), M1-M3, M5, reordering '
    'still enabled. dd.autoref, and dd.bdd with operands incref-ed. Plus '
    'natural triggering: histories with REORDER_STARTS lowered and with '
    'default thresholds on managers > 100 nodes, with refused calls '
    '(the catalogue of C17) injected in between: the manager stays intact '
    'and reordering stays enabled. A fault point is '
    'non-trivial when the failpoint fired; distinct by (operation, '
    'scenario, k).')


def plan(tier, seed):
    specs = []
    nscen = 6 if tier == 'quick' else 40
    ops = sorted(OPS)
    for kind in ('autoref', 'bdd'):
        for j, op in enumerate(ops):
            if kind not in OPS[op][1]:
                continue
            specs.append(dict(kind='faults', op=op, manager=kind,
                              scenarios=nscen, base=seed * 1000 + j * 37,
                              hashseed=j % 8))
    nn = 64 if tier == 'thorough' else 8
    for k in range(nn):
        specs.append(dict(kind='natural', sub=k, n=4 + k % 3,
                          steps=3000 if tier == 'thorough' else 600,
                          manager='autoref' if k % 2 == 0 else 'bdd',
                          starts=4 if k % 4 < 3 else None, hashseed=k))
    # instances beyond truth tables (12-70 variables), see vf/big.py
    from vf import big
    specs.extend(big.specs(tier, seed, 'C09'))
    meta = dict(
        rule=RULE,
        require=['big_histories', 'fault_points_fired', 'control_points', 'requests_seen',
                 'natural_reorderings', 'ops_covered',
                 'refused_calls_with_reordering_on'],
        assumptions=['the reordering signal originates only in '
                     'dd.bdd._request_reordering (looked up as a module '
                     'global at call time)',
                     'truth-table model in vf/oracle.py'],
        timeout=1500 if tier == 'quick' else 5400)
    return specs, meta


class Failpoint:
    def __init__(self):
        import dd.bdd as _b
        self._b = _b
        self.orig = _b._request_reordering
        self.k = None
        self.calls = 0
        self.fired = 0
        self.armed = False
        self.orig_reorder = _b.reorder
        self.permute = None     # a random.Random, or None
        self.permuted = 0

    def install(self):
        fp = self
        _b = self._b

        def hook(bdd):
            if bdd._last_len is None:
                return
            if fp.armed:
                fp.calls += 1
                if fp.calls == fp.k:
                    fp.fired += 1
                    raise _b._NeedsReordering()
            return fp.orig(bdd)
        _b._request_reordering = hook

        def reorder(bdd, order=None, *args, **kw):
            # the reordering that serves a request: sifting, and then
            # (hostile outcome, every other fault point) a further
            # arbitrary permutation - whatever order a reordering ends
            # with, the retried operation must give the same function
            # (further arguments, if the library grows any, pass through)
            fp.orig_reorder(bdd, order, *args, **kw)
            if order is None and fp.permute is not None and \
                    bdd._last_len is None and fp.fired:
                names = list(bdd.vars)
                fp.permute.shuffle(names)
                fp.orig_reorder(bdd, {v: i for i, v in enumerate(names)})
                fp.permuted += 1
        _b.reorder = reorder

    def uninstall(self):
        self._b._request_reordering = self.orig
        self._b.reorder = self.orig_reorder

    def arm(self, k):
        self.k = k
        self.calls = 0
        self.fired = 0
        self.armed = True

    def disarm(self):
        self.armed = False


# ----------------------------------------------------------- scenarios
PAIRS = {'x': "x'", 'y': "y'"}


def scenario(ctx, seed, kind, reg, with_pairs=False):
    """A freshly built manager: 3 operands + 2 bystanders held, dynamic
    reordering enabled. Deterministic in `seed`."""
    rng = random.Random(seed)
    if with_pairs:
        names = ['x', "x'", 'y', "y'", 'z']
        # keep pairs adjacent; primed above or below at random
        blocks = [['x', "x'"], ['y', "y'"], ['z']]
        rng.shuffle(blocks)
        order = []
        for b in blocks:
            if rng.random() < 0.5:
                b = b[::-1]
            order += b
    else:
        names = [f'v{i}' for i in range(rng.choice((4, 5)))]
        order = names[:]
        rng.shuffle(order)
    w = World(ctx, rng, names, kind=kind, order=order, strict=True,
              registry=reg)
    for _ in range(5):
        t = random_table(rng, w.sp, kind=0.5 + 0.5 * rng.random())
        w.accept('find_or_add', w.build(t), t, strict=True)
    w.bdd.configure(reordering=True)
    w.reordering = True
    return w


# each op: fn(w, rng) -> (callable() -> handle, expected table, site)
def _op_apply(sym):
    def make(w, rng):
        a, b = w.pool[0], w.pool[1]
        from vf.oracle import BINOPS
        want = getattr(w.sp, BINOPS[sym])(a.tt, b.tt)
        return (lambda: w.bdd.apply(sym, a.h, b.h)), want, 'apply'
    return make


def _op_apply_quant(sym):
    def make(w, rng):
        # the first operand only supplies its support: a function of
        # one or two variables, so that the result is not a constant
        vs = rng.sample(list(w.sp.names), rng.randint(1, 2))
        t = w.sp.cube_table({v: rng.random() < 0.5 for v in vs})
        w.accept('find_or_add', w.build(t), t, strict=True)
        a, b = w.pool[-1], w.pool[1]
        from vf.oracle import QUANT_OPS
        q = w.sp.support(a.tt)
        want = (w.sp.forall if QUANT_OPS[sym] else w.sp.exists)(b.tt, q)
        return (lambda: w.bdd.apply(sym, a.h, b.h)), want, 'apply-quantifier'
    return make


def _op_fop(name):
    def make(w, rng):
        a, b = w.pool[0], w.pool[1]
        sp = w.sp
        fn, want = dict(
            and_=(lambda: a.h & b.h, a.tt & b.tt),
            or_=(lambda: a.h | b.h, a.tt | b.tt),
            implies=(lambda: a.h.implies(b.h), sp.IMPLIES(a.tt, b.tt)),
            equiv=(lambda: a.h.equiv(b.h), sp.EQUIV(a.tt, b.tt)))[name]
        return fn, want, 'Function.' + name
    return make


def _op_fmethod(name):
    def make(w, rng):
        a = w.pool[0]
        sp = w.sp
        vs = rng.sample(list(sp.names), 2)
        if name == 'exist':
            return (lambda: a.h.exist(*vs)), sp.exists(a.tt, vs), \
                'Function.exist'
        if name == 'forall':
            return (lambda: a.h.forall(*vs)), sp.forall(a.tt, vs), \
                'Function.forall'
        d = {v: w.pool[1 + i].h for i, v in enumerate(vs)}
        want = sp.substitute(a.tt, {v: w.pool[1 + i].tt
                                    for i, v in enumerate(vs)})
        return (lambda: a.h.let(**d)), want, 'Function.let'
    return make


_ITERABLE_FORMS = ('list', 'tuple', 'set', 'generator', 'iterator')


def _as_form(form, xs):
    if form == 'list':
        return list(xs)
    if form == 'tuple':
        return tuple(xs)
    if form == 'set':
        return set(xs)
    if form == 'generator':
        return (x for x in xs)
    return iter(list(xs))


def _op_ite(w, rng):
    g, a, b = w.pool[0], w.pool[1], w.pool[2]
    return (lambda: w.bdd.ite(g.h, a.h, b.h)), \
        w.sp.ITE(g.tt, a.tt, b.tt), 'ite'


def _op_quantify(how):
    def make(w, rng):
        a = w.pool[0]
        qv = rng.sample(list(w.sp.names), 2)
        fa = rng.random() < 0.5
        want = (w.sp.forall if fa else w.sp.exists)(a.tt, qv)
        # `qvars` is declared as an iterable of names
        form = rng.choice(_ITERABLE_FORMS)
        w.ctx.count('qvars_as_' + form)
        if how == 'quantify':
            fn = lambda: w.bdd.quantify(a.h, _as_form(form, qv), forall=fa)
        elif how == 'exist':
            want = w.sp.exists(a.tt, qv)
            fn = lambda: w.bdd.exist(_as_form(form, qv), a.h)
        else:
            want = w.sp.forall(a.tt, qv)
            fn = lambda: w.bdd.forall(_as_form(form, qv), a.h)
        return fn, want, 'quantify'
    return make


def _op_let_const(w, rng):
    a = w.pool[0]
    d = {v: rng.random() < 0.5 for v in rng.sample(list(w.sp.names), 2)}
    return (lambda: w.bdd.let(d, a.h)), w.sp.cofactor(a.tt, d), \
        'let-constants'


def _op_let_rename(w, rng):
    a = w.pool[0]
    names = list(w.sp.names)
    d = {v: rng.choice(names) for v in rng.sample(names, 2)}
    return (lambda: w.bdd.let(d, a.h)), w.sp.rename(a.tt, d), 'let-rename'


def _op_let_compose(k):
    def make(w, rng):
        a = w.pool[0]
        vs = rng.sample(list(w.sp.names), k)
        subs = {v: w.pool[1 + i] for i, v in enumerate(vs)}
        d = {v: e.h for v, e in subs.items()}
        want = w.sp.substitute(a.tt, {v: e.tt for v, e in subs.items()})
        return (lambda: w.bdd.let(d, a.h)), want, 'let-compose'
    return make


def _op_cube(w, rng):
    # an assignment, or an iterable of names (all true)
    form = rng.choice(('dict', 'dict') + _ITERABLE_FORMS)
    w.ctx.count('cube_arg_as_' + form)
    if form == 'dict':
        d = {v: rng.random() < 0.5 for v in w.sp.names}
        return (lambda: w.bdd.cube(d)), w.sp.cube_table(d), 'cube'
    vs = rng.sample(list(w.sp.names), rng.randint(1, len(w.sp.names)))
    d = {v: True for v in vs}
    return (lambda: w.bdd.cube(_as_form(form, vs))), w.sp.cube_table(d), \
        'cube'


def _op_var(w, rng):
    v = rng.choice(list(w.sp.names))
    # make sure the variable node does not exist yet, if possible
    return (lambda: w.bdd.var(v)), w.sp.var(v), 'var'


def _op_add_expr(w, rng):
    nodes = [node_of(e.h) for e in w.pool[:3]]
    s = formula.gen(rng, list(w.sp.names), 4, nodes)
    want = formula.meaning(s, w.sp, w.den())
    return (lambda: w.bdd.add_expr(s)), want, 'add_expr'


def _source_manager(w, rng, t):
    """Another manager (other order) holding table `t`."""
    names = list(w.sp.names)
    rng.shuffle(names)
    lv = {v: i for i, v in enumerate(names)}
    if w.kind == 'bdd':
        other = w._b.BDD(lv)
        u = build(other, t, w.sp)
        other.incref(u)
    else:
        other = w._a.BDD(lv)
        u = w._a.Function(build(other._bdd, t, w.sp), other)
    return other, u


def _op_copy(how):
    def make(w, rng):
        t = random_table(rng, w.sp, kind=0.9)
        other, u = _source_manager(w, rng, t)
        w.keep = (other, u)
        if how == 'method':
            fn = lambda: other.copy(u, w.bdd)
        elif how == 'module':
            if w.kind == 'bdd':
                fn = lambda: w._b.copy_bdd(u, other, w.bdd)
            else:
                fn = lambda: w._a.copy_bdd(u, w.bdd)
        else:
            import dd._copy as _c
            fn = lambda: _c.copy_bdd(u, w.bdd)
        return fn, t, 'copy'
    return make


def _op_load_pickle(w, rng):
    t = random_table(rng, w.sp, kind=0.9)
    # dump from a manager with the SAME order (the loader's default mode)
    names = sorted(w.raw.vars, key=w.raw.vars.get)
    lv = {v: i for i, v in enumerate(names)}
    other = w._b.BDD(lv)
    u = build(other, t, w.sp)
    other.incref(u)
    fn_ = f'fp{os.getpid()}.p'
    other.dump(fn_, [u])
    other.decref(u)

    def run():
        r, = w.bdd.load(fn_)
        return r
    return run, t, 'load-pickle'


def _op_load_json(w, rng):
    t = random_table(rng, w.sp, kind=0.9)
    names = sorted(w.raw.vars, key=w.raw.vars.get)
    lv = {v: i for i, v in enumerate(names)}
    other = w._a.BDD(lv)
    u = w._a.Function(build(other._bdd, t, w.sp), other)
    fn_ = f'fp{os.getpid()}.json'
    other.dump(fn_, [u])
    del u

    def run():
        r, = w.bdd.load(fn_)
        return r
    return run, t, 'load-json'


def _op_image(pre):
    def make(w, rng):
        sp = w.sp
        unprimed = ['x', 'y']
        primed = ["x'", "y'"]
        trans = w.pool[0]
        # a set over unprimed variables (and z)
        s_tt = sp.exists(w.pool[1].tt, primed)
        s_h = w.build(s_tt)
        w.accept('find_or_add', s_h, s_tt, strict=True)
        s = w.pool[-1]
        fa = rng.random() < 0.3
        Q = sp.forall if fa else sp.exists
        if pre:
            rename = {a: b for a, b in zip(unprimed, primed)}
            qvars = set(primed)
            want = Q(trans.tt & sp.rename(s.tt, rename), qvars)
            if w.kind == 'bdd':
                fn = lambda: w._b.preimage(trans.h, s.h, rename, qvars,
                                           w.raw, fa)
            else:
                fn = lambda: w._a.preimage(trans.h, s.h, rename, qvars, fa)
            return fn, want, 'preimage'
        rename = {b: a for a, b in zip(unprimed, primed)}
        qvars = set(unprimed)
        want = sp.rename(Q(trans.tt & s.tt, qvars), rename)
        if w.kind == 'bdd':
            fn = lambda: w._b.image(trans.h, s.h, rename, qvars, w.raw, fa)
        else:
            fn = lambda: w._a.image(trans.h, s.h, rename, qvars, fa)
        return fn, want, 'image'
    return make


def _op_find_or_add(w, rng):
    # a node at the top level with two held functions below it
    top = w.raw.var_at_level(0)
    lo_tt = w.sp.cof(w.pool[0].tt, top, 0)
    hi_tt = w.sp.cof(w.pool[1].tt, top, 1)
    for t in (lo_tt, hi_tt):
        w.accept('find_or_add', w.build(t), t, strict=True)
    lo, hi = w.pool[-2], w.pool[-1]
    m = w.sp.var(top)
    want = (m & hi.tt) | (w.sp.NOT(m) & lo.tt)
    return (lambda: w.bdd.find_or_add(top, lo.h, hi.h)), want, \
        'autoref.find_or_add'


BOTH = ('bdd', 'autoref')
OPS = {
    'apply-and': (_op_apply('and'), BOTH),
    'apply-or': (_op_apply('\\/'), BOTH),
    'apply-xor': (_op_apply('#'), BOTH),
    'apply-implies': (_op_apply('=>'), BOTH),
    'apply-equiv': (_op_apply('<->'), BOTH),
    'apply-diff': (_op_apply('-'), BOTH),
    'apply-nand-like-ampamp': (_op_apply('&&'), BOTH),
    'apply-pipepipe': (_op_apply('||'), BOTH),
    'apply-forall': (_op_apply_quant('\\A'), BOTH),
    'apply-exists': (_op_apply_quant('\\E'), BOTH),
    'apply-forall-word': (_op_apply_quant('forall'), BOTH),
    'apply-exists-word': (_op_apply_quant('exists'), BOTH),
    'fop-exist': (_op_fmethod('exist'), ('autoref',)),
    'fop-forall': (_op_fmethod('forall'), ('autoref',)),
    'fop-let': (_op_fmethod('let'), ('autoref',)),
    'fop-and': (_op_fop('and_'), ('autoref',)),
    'fop-or': (_op_fop('or_'), ('autoref',)),
    'fop-implies': (_op_fop('implies'), ('autoref',)),
    'fop-equiv': (_op_fop('equiv'), ('autoref',)),
    'ite': (_op_ite, BOTH),
    'quantify': (_op_quantify('quantify'), BOTH),
    'exist': (_op_quantify('exist'), BOTH),
    'forall': (_op_quantify('forall'), BOTH),
    'let-constants': (_op_let_const, BOTH),
    'let-rename': (_op_let_rename, BOTH),
    'let-compose-1': (_op_let_compose(1), BOTH),
    'let-compose-2': (_op_let_compose(2), BOTH),
    'cube': (_op_cube, BOTH),
    'var': (_op_var, BOTH),
    'add_expr': (_op_add_expr, BOTH),
    'copy-method': (_op_copy('method'), BOTH),
    'copy-module': (_op_copy('module'), BOTH),
    'copy-_copy': (_op_copy('_copy'), ('autoref',)),
    'load-pickle': (_op_load_pickle, BOTH),
    'load-json': (_op_load_json, ('autoref',)),
    'image': (_op_image(False), BOTH),
    'preimage': (_op_image(True), BOTH),
    'find_or_add': (_op_find_or_add, ('autoref',)),
}
PAIR_OPS = ('image', 'preimage')


def run_point(ctx, fp, reg, seed, kind, opname, k):
    """Rebuild the scenario, run the operation with the signal forced
    at request k. Returns (#requests seen, fired?)."""
    import dd.bdd as _b
    w = scenario(ctx, seed, kind, reg, with_pairs=opname in PAIR_OPS)
    rng = random.Random(seed * 7919 + 13)
    make = OPS[opname][0]
    # preparation runs with the failpoint disarmed and requests off
    w.raw._last_len = None
    fn, want, site = make(w, rng)
    w.bdd.configure(reordering=True)
    info = dict(op=opname, manager=kind, scenario=seed, k=k)
    fp.permute = random.Random(seed * 31 + k) if k % 2 else None
    fp.arm(k)
    h = None
    try:
        h = fn()
    except _b._NeedsReordering:
        fp.disarm()
        raise Violation(site, 'reordering-signal-reaches-caller', info)
    except Exception as e:
        fp.disarm()
        if fp.fired:
            raise Violation(site, 'fails-after-reordering-request:' +
                            type(e).__name__, dict(info, exc=repr(e)[:300]))
        raise
    finally:
        fp.disarm()
    calls, fired = fp.calls, fp.fired
    try:
        w.accept(site, h, want, strict=True)
        h = None
        w.check(site)
    except Violation as v:
        v.site = site
        v.detail = dict(info, fired=bool(fired), detail=v.detail)
        raise
    if w.bdd.configure()['reordering'] is not True:
        raise Violation(site, 'reordering-left-disabled', info)
    if getattr(w.raw, '_reordering_context', False):
        raise Violation(site, 'nesting-flag-left-set', info)
    w.keep = None
    fn = make = None     # closures may hold Function handles
    w.finish(site)
    return calls, fired


def faults(ctx, spec):
    kind = spec['manager']
    opname = spec['op']
    reg = None
    if kind == 'autoref':
        reg = monitors.HandleRegistry()
        reg.install()
    fp = Failpoint()
    fp.install()
    ctx.counters['ops_covered'] += 1
    ctx.note('ops', f'{kind}:{opname}')
    try:
        for s in range(spec['scenarios']):
            seed = spec['base'] + s
            case = dict(op=opname, manager=kind, scenario=seed)
            ok, res = ctx.guard(opname, run_point, ctx, fp, reg, seed, kind,
                                opname, 10 ** 9, case=dict(case, k='dry'))
            if not ok:
                continue
            K = res[0]
            ctx.counters['requests_seen'] += K
            ctx.note('K:' + opname, K)
            bad = 0
            for k in range(1, K + 2):
                ok, res = ctx.guard(opname, run_point, ctx, fp, reg, seed,
                                    kind, opname, k, case=dict(case, k=k))
                fired = bool(res and res[1]) or (not ok and fp.fired)
                ctx.case(fired, opname, kind, seed, k)
                if fired:
                    ctx.counters['fault_points_fired'] += 1
                    ctx.counters['order_permuted_after_sifting'] += \
                        fp.permuted
                    fp.permuted = 0
                else:
                    ctx.counters['control_points'] += 1
                if not ok:
                    bad += 1
                    if bad >= 2:
                        break
            if s == 0:
                ctx.sample(dict(kind='faults', op=opname, manager=kind,
                                scenario=seed, requests=K))
    finally:
        fp.uninstall()
        if reg:
            reg.uninstall()


def _refused_calls(ctx, w, rng, spec, k):
    """Two refused calls from C17's catalogue on a manager with dynamic
    reordering enabled; judged as in C17 (manager intact, reordering not
    switched off)."""
    from vf.props import c17
    cat = c17.catalogue(w, rng)
    cat = rng.sample(cat, min(len(cat), 2))
    for fk, thunk in cat:
        info = dict(fault=fk, manager=spec['manager'], dynamic=True, step=k)
        ok, exc = ctx.guard(fk, c17.inject, w, ctx, fk, thunk, info,
                            case=dict(spec=spec, step=k, fault=fk,
                                      tail=[list(map(str, d))
                                            for d in w.log[-4:]]))
        thunk = None
        if not ok:
            return False
        if exc:
            ctx.counters['refused_calls_with_reordering_on'] += 1
            w.log.append(('reject', fk, exc))
    return True


def natural(ctx, spec):
    """No failpoint: lowered REORDER_STARTS (or the default threshold on
    a manager grown past 100 nodes)."""
    import dd.bdd as _b
    rng = ctx.rng('natural', spec['sub'])
    kind = spec['manager']
    reg = None
    if kind == 'autoref':
        reg = monitors.HandleRegistry()
        reg.install()
    old = _b.REORDER_STARTS
    n = spec['n'] if spec['starts'] else 8
    names = [f'v{i}' for i in range(n)]
    reorders = [0]
    orig = _b.reorder

    def counting_reorder(bdd, order=None, *args, **kw):
        reorders[0] += 1
        return orig(bdd, order, *args, **kw)
    _b.reorder = counting_reorder
    try:
        if spec['starts']:
            _b.REORDER_STARTS = spec['starts']
        w = World(ctx, rng, names, kind=kind, strict=True, registry=reg,
                  reordering=True)
        menu = dict(build=6, apply=10, apply_quant=1, ite=6, quantify=4,
                    let_const=3, let_rename=3, let_compose=3, cube=1, var=1,
                    add_expr=3, drop=7, drop_many=1, dup=1, canon=2,
                    gc=1, rearm=3, fop=4 if kind == 'autoref' else 0,
                    traverse=2 if kind == 'autoref' else 0, **{'not': 1})
        for k in range(spec['steps']):
            ok, res = ctx.guard(w.site, w.step, menu, case=dict(
                spec=spec, step=k,
                tail=[list(map(str, d)) for d in w.log[-6:]]))
            if not ok:
                break
            if w.bdd.configure()['reordering'] is not True:
                ctx.violation(w.site, 'reordering-left-disabled',
                              dict(step=k, tail=w.log[-3:]))
                break
            ctx.case(True, 'natural', spec['sub'], w.state_hash())
            # refused calls in between ("reordering is still enabled
            # afterwards" holds for calls that are refused, too)
            if len(w.pool) >= 2 and rng.random() < 0.08:
                if not _refused_calls(ctx, w, rng, spec, k):
                    break
        ctx.counters['natural_reorderings'] += reorders[0]
        ctx.sample(dict(kind='natural', manager=kind, n=n,
                        reorderings=reorders[0], nodes=len(w.raw),
                        last_steps=[list(map(str, d)) for d in w.log[-4:]]))
        ctx.guard('shutdown', w.finish)
    finally:
        _b.REORDER_STARTS = old
        _b.reorder = orig
        if reg:
            reg.uninstall()


def run_shard(ctx, spec):
    if spec['kind'] == 'big':
        from vf import big
        return ctx.guard('big', big.run, ctx, spec, case=spec)
    fn = dict(faults=faults, natural=natural)[spec['kind']]
    ctx.guard(spec['kind'], fn, ctx, spec, case=spec)
