"""C12 - dump/load round-trips (pickle, JSON, whole manager)."""
import collections
import gc
import os

from vf import monitors
from vf.common import Violation, EVENTS
from vf.oracle import Space, Denoter, build, random_table

RULE = (
    'sampled scenarios: 1-4 root functions over <=4 variables (constants, '
    'literals, complemented and shared roots included), roots as list or '
    'dict, source order random and optionally reordered after '
    'declaration (so the insertion order of vars differs from the level '
    'order); format pickle (dd.bdd and dd.autoref) with levels True/False '
    'or JSON (dd.autoref, dd._copy.dump_json/load_json) with load_order '
    'True/False; target in {fresh, same manager, same order, other '
    'order, extra variables below, extra variables interleaved, subset of '
    'the variables}, possibly already holding nodes; pickle dump with '
    'roots=None; _dump_manager/_load_manager. Oracle: the outcome class is '
    'predicted from the documented loader rules (conflicting level => '
    'ValueError, a refusal, is legal where levels=True / load_order=True '
    'cannot be honoured); on acceptance every returned root (by position '
    'or key) read from the target node table denotes the dumped table, '
    'target M1-M5 with exact counts (ledger = harness holds or live '
    'Functions), whole-manager pickle reproduces vars, nodes, counts. '
    'Non-trivial: at least one non-constant root; distinct by hash of '
    'the scenario.')

TARGETS = ('fresh', 'same', 'same-order', 'other-order', 'extra-below',
           'extra-interleaved', 'subset')


def plan(tier, seed):
    specs = []
    n = 128 if tier == 'thorough' else 14
    for k in range(n):
        specs.append(dict(kind='scen', sub=k,
                          rounds=4000 if tier == 'thorough' else 350,
                          hashseed=k))
    # instances beyond truth tables (12-70 variables), see vf/big.py
    from vf import big
    specs.extend(big.specs(tier, seed, 'C12'))
    meta = dict(
        rule=RULE,
        require=['big_histories', 'huge_histories', 'loads_with_reordering_due', 'scenarios', 'accepted', 'refused', 'roots_checked',
                 'fmt_pickle', 'fmt_json', 'fmt_manager', 'roots_none',
                 'levels_false_other_order', 'json_load_order'] +
                ['target_' + t for t in TARGETS],
        assumptions=['loader rules as documented in the docstrings of '
                     'BDD.load / add_var / load_json',
                     'truth-table denotation from BDD._succ'],
        timeout=1500 if tier == 'quick' else 5400)
    return specs, meta


class Side:
    """A manager (dd.bdd or dd.autoref) with a ledger."""

    def __init__(self, auto, levels, reg):
        import dd.bdd as _b
        import dd.autoref as _a
        self._b, self._a = _b, _a
        self.auto = auto
        self.bdd = (_a.BDD if auto else _b.BDD)(levels)
        self.raw = self.bdd._bdd if auto else self.bdd
        self.reg = reg
        self.ext = collections.Counter()
        self.held = []     # (handle, names, table)

    def mk(self, t, sp):
        """Build table `t` (over Space sp) and hold it."""
        u = build(self.raw, t, sp)
        return self.hold_raw(u, sp, t)

    def hold_raw(self, u, sp, t):
        if self.auto:
            h = self._a.Function(u, self.bdd)
        else:
            h = u
            self.raw.incref(u)
            self.ext[abs(u)] += 1
        self.held.append((h, sp, t))
        return h

    def hold_handle(self, h, sp, t):
        if not self.auto:
            self.raw.incref(h)
            self.ext[abs(h)] += 1
        self.held.append((h, sp, t))

    def node(self, h):
        return h.node if self.auto else h

    def external(self):
        if self.auto:
            return collections.Counter(self.reg.external(self.raw))
        return self.ext

    def check(self, site):
        if self.auto:
            gc.collect()
        was = gc.isenabled()
        gc.disable()
        try:
            monitors.check_structure(self.raw)
            monitors.check_order_maps(self.bdd)
            den = monitors.check_canonicity(self.raw)
            monitors.check_ledger(self.raw, self.external())
            monitors.check_ite_table(self.raw, den)
            allsp = Space(self.raw.vars)
            for h, sp, t in self.held:
                u = self.node(h)
                if abs(u) not in self.raw._succ:
                    raise Violation(site, 'M7-held-reference-freed', u)
                if den(u) != sp.lift(t, allsp):
                    raise Violation(site,
                                    'M7-held-reference-changed-meaning', u)
        except Violation as v:
            v.site = site
            raise
        finally:
            if was:
                gc.enable()

    def release(self):
        for h, sp, t in self.held:
            if not self.auto:
                self.raw.decref(h)
        self.held = []
        self.ext.clear()


def scen(ctx, spec):
    rng = ctx.rng('scen', spec['sub'])
    reg = monitors.HandleRegistry()
    reg.install()
    try:
        for rnd in range(spec['rounds']):
            kind = rng.choice(('pickle', 'pickle', 'json', 'json',
                               'manager', 'roots-none'))
            fn = dict(pickle=one_pickle, json=one_json, manager=one_manager,
                      **{'roots-none': one_roots_none})[kind]
            info = dict(sub=spec['sub'], round=rnd, kind=kind)
            ok, _ = ctx.guard('load', fn, ctx, rng, reg, info, case=info)
            ctx.counters['scenarios'] += 1
            gc.collect()
            EVENTS.drain()
            if len([v for v in ctx.violations]) > 12:
                return
    finally:
        reg.uninstall()


def make_source(rng, reg, auto, nvars):
    names = [f'x{i}' for i in range(nvars)]
    order = names[:]
    rng.shuffle(order)
    src = Side(auto, {v: i for i, v in enumerate(order)}, reg)
    sp = Space(names)
    k = rng.randint(1, 4)
    tabs = []
    for _ in range(k):
        r = rng.random()
        if r < 0.1:
            t = rng.choice((0, sp.full))
        elif r < 0.25 and tabs:
            t = sp.NOT(rng.choice(tabs)) if rng.random() < 0.5 \
                else rng.choice(tabs)
        else:
            t = random_table(rng, sp, kind=0.1 + 0.9 * rng.random())
        tabs.append(t)
    hs = [src.mk(t, sp) for t in tabs]
    reordered = False
    if nvars >= 2 and rng.random() < 0.5:
        # reorder after declaration: `vars` keeps its insertion order
        p = names[:]
        rng.shuffle(p)
        src._b.reorder(src.raw, {v: i for i, v in enumerate(p)})
        reordered = True
    return src, sp, names, tabs, hs, reordered


def make_target(rng, reg, auto, src, names, tkind):
    """Returns (target Side, same?)."""
    if tkind == 'same':
        return src
    sorder = sorted(src.raw.vars, key=src.raw.vars.get)
    if tkind == 'fresh':
        lv = dict()
    elif tkind == 'same-order':
        lv = {v: i for i, v in enumerate(sorder)}
    elif tkind == 'other-order':
        o = sorder[:]
        if len(o) >= 2:
            while o == sorder:
                rng.shuffle(o)
        lv = {v: i for i, v in enumerate(o)}
    elif tkind == 'extra-below':
        lv = {v: i for i, v in enumerate(sorder + ['e0', 'e1'])}
    elif tkind == 'extra-interleaved':
        o = sorder + ['e0', 'e1']
        rng.shuffle(o)
        lv = {v: i for i, v in enumerate(o)}
    elif tkind == 'subset':
        k = rng.randint(0, max(0, len(sorder) - 1))
        o = rng.sample(sorder, k)
        lv = {v: i for i, v in enumerate(o)}
    tgt = Side(auto, lv, reg)
    if lv and rng.random() < 0.4:
        sp = Space(lv)
        for _ in range(rng.randint(1, 3)):
            tgt.mk(random_table(rng, sp), sp)
    return tgt


def predict_pickle(file_vars, tvars, levels):
    """True when the documented rules let the load go through."""
    if not levels:
        return True
    used = {l: v for v, l in tvars.items()}
    for v, i in file_vars.items():
        if v in tvars:
            if tvars[v] != i:
                return False
        elif i in used:
            return False
    # the new variables must leave contiguous levels
    lv = dict(tvars)
    lv.update(file_vars)
    return sorted(lv.values()) == list(range(len(lv)))


def judge_roots(ctx, tgt, back, roots_in, as_dict, sp, tabs, site, info):
    if as_dict:
        if not isinstance(back, dict) or list(back) != list(roots_in):
            raise Violation(site, 'root-names-differ',
                            dict(info, got=repr(back)[:200]))
        vals = list(back.values())
    else:
        if isinstance(back, dict) or len(back) != len(tabs):
            raise Violation(site, 'root-positions-differ',
                            dict(info, got=repr(back)[:200]))
        vals = list(back)
    allsp = Space(tgt.raw.vars)
    den = Denoter(tgt.raw, allsp)
    for h, t in zip(vals, tabs):
        u = tgt.node(h)
        if not isinstance(u, int) or abs(u) not in tgt.raw._succ:
            raise Violation(site, 'root-not-a-stored-node',
                            dict(info, got=repr(u)))
        if den(u) != sp.lift(t, allsp):
            raise Violation(site, 'loaded-root-denotes-other-function',
                            dict(info, got=allsp.fmt(den(u)),
                                 want=allsp.fmt(sp.lift(t, allsp)),
                                 target_order=dict(tgt.raw.vars)))
        ctx.counters['roots_checked'] += 1
    for h, t in zip(vals, tabs):
        tgt.hold_handle(h, sp, t)
    del vals
    tgt.check(site)


def one_pickle(ctx, rng, reg, info):
    auto = rng.random() < 0.4
    src, sp, names, tabs, hs, reordered = make_source(
        rng, reg, auto, rng.randint(1, 4))
    tkind = rng.choice(TARGETS)
    levels = rng.random() < 0.5
    as_dict = rng.random() < 0.5
    roots = ({f'r{i}': h for i, h in enumerate(hs)} if as_dict else list(hs))
    fn = f'p{os.getpid()}.p'
    src.bdd.dump(fn, roots)
    file_vars = dict(src.raw.vars)
    tgt = make_target(rng, reg, auto, src, names, tkind)
    info.update(fmt='pickle', manager='autoref' if auto else 'bdd',
                target=tkind, levels=levels, as_dict=as_dict,
                reordered_source=reordered, file_vars=file_vars,
                target_vars=dict(tgt.raw.vars),
                tables=[sp.fmt(t) for t in tabs])
    ctx.counters['fmt_pickle'] += 1
    ctx.counters['target_' + tkind] += 1
    ctx.case(any(0 < t < sp.full for t in tabs), 'pickle', auto, tkind,
             levels, as_dict, tuple(file_vars.items()),
             tuple(tgt.raw.vars.items()), tuple(tabs))
    expect_ok = predict_pickle(file_vars, dict(tgt.raw.vars), levels)
    if not levels and tkind in ('other-order', 'extra-interleaved',
                                'subset', 'fresh'):
        ctx.counters['levels_false_other_order'] += 1
    due = _reordering_due(ctx, rng, tgt)
    try:
        back = tgt.bdd.load(fn, levels=levels)
    except ValueError as e:
        _reordering_after(due, tgt, 'load-pickle', info)
        os.remove(fn)
        if expect_ok:
            raise Violation('load-pickle', 'refused-a-loadable-file',
                            dict(info, exc=repr(e)[:200]))
        ctx.counters['refused'] += 1
        return
    _reordering_after(due, tgt, 'load-pickle', info)
    os.remove(fn)
    ctx.counters['accepted'] += 1
    # (accepting where a refusal was predicted is fine if the roots are
    # right: the outcome is judged, not the prediction)
    judge_roots(ctx, tgt, back, roots, as_dict, sp, tabs, 'load-pickle',
                info)
    del back, roots, hs
    if ctx.counters['scenarios'] % 40 == 0:
        ctx.sample({k: v for k, v in info.items()})
    _cleanup(src, tgt)


def one_roots_none(ctx, rng, reg, info):
    """Pickle dump without naming roots stores every node and loads back
    without error."""
    auto = rng.random() < 0.4
    src, sp, names, tabs, hs, reordered = make_source(
        rng, reg, auto, rng.randint(1, 4))
    fn = f'n{os.getpid()}.p'
    src.bdd.dump(fn, None) if rng.random() < 0.5 else src.bdd.dump(fn)
    tkind = rng.choice(('fresh', 'same', 'same-order'))
    tgt = make_target(rng, reg, auto, src, names, tkind)
    info.update(fmt='pickle-roots-none', manager='autoref' if auto
                else 'bdd', target=tkind, file_vars=dict(src.raw.vars))
    ctx.counters['roots_none'] += 1
    ctx.case(True, 'roots-none', auto, tkind, tuple(src.raw.vars.items()),
             tuple(tabs))
    want = {Denoter(src.raw, sp).node(u) for u in src.raw._succ}
    try:
        back = tgt.bdd.load(fn)
    except Exception as e:
        os.remove(fn)
        raise Violation('load-pickle', 'dump-without-roots-does-not-load:' +
                        type(e).__name__, dict(info, exc=repr(e)[:200]))
    os.remove(fn)
    ctx.counters['accepted'] += 1
    # every stored node of the source exists in the target
    allsp = Space(tgt.raw.vars)
    den = Denoter(tgt.raw, allsp)
    have = {den.node(u) for u in tgt.raw._succ}
    missing = {sp.lift(t, allsp) for t in want} - have
    if missing:
        raise Violation('load-pickle', 'dump-without-roots-lost-nodes',
                        dict(info, missing=len(missing)))
    tgt.check('load-pickle')
    del back, hs
    _cleanup(src, tgt)


def one_json(ctx, rng, reg, info):
    import dd._copy as _c
    src, sp, names, tabs, hs, reordered = make_source(
        rng, reg, True, rng.randint(1, 4))
    tkind = rng.choice(TARGETS)
    load_order = rng.random() < 0.4
    as_dict = rng.random() < 0.5
    roots = ({f'r{i}': h for i, h in enumerate(hs)} if as_dict else list(hs))
    fn = f'j{os.getpid()}.json'
    if rng.random() < 0.5:
        src.bdd.dump(fn, roots)
    else:
        _c.dump_json(roots, fn)
    file_vars = dict(src.raw.vars)
    tgt = make_target(rng, reg, True, src, names, tkind)
    info.update(fmt='json', target=tkind, load_order=load_order,
                as_dict=as_dict, reordered_source=reordered,
                file_vars=file_vars, target_vars=dict(tgt.raw.vars),
                tables=[sp.fmt(t) for t in tabs])
    ctx.counters['fmt_json'] += 1
    ctx.counters['target_' + tkind] += 1
    if load_order:
        ctx.counters['json_load_order'] += 1
    ctx.case(any(0 < t < sp.full for t in tabs), 'json', tkind, load_order,
             as_dict, tuple(file_vars.items()),
             tuple(tgt.raw.vars.items()), tuple(tabs))
    # load_order=True re-orders the target to the file's order, which
    # needs the target to declare no other variable
    expect_ok = (not load_order) or set(tgt.raw.vars) <= set(file_vars)
    due = _reordering_due(ctx, rng, tgt)
    try:
        if load_order or rng.random() < 0.5:
            back = _c.load_json(fn, tgt.bdd, load_order=load_order)
        else:
            back = tgt.bdd.load(fn)
    except ValueError as e:
        _reordering_after(due, tgt, 'load-json', info)
        os.remove(fn)
        if expect_ok:
            raise Violation('load-json', 'refused-a-loadable-file',
                            dict(info, exc=repr(e)[:200]))
        ctx.counters['refused'] += 1
        return
    os.remove(fn)
    ctx.counters['accepted'] += 1
    _reordering_after(due, tgt, 'load-json', info)
    if load_order and dict(tgt.raw.vars) != file_vars:
        raise Violation('load-json', 'load_order-did-not-restore-order',
                        dict(info, got=dict(tgt.raw.vars)))
    judge_roots(ctx, tgt, back, roots, as_dict, sp, tabs, 'load-json', info)
    del back, roots, hs
    if ctx.counters['scenarios'] % 40 == 1:
        ctx.sample({k: v for k, v in info.items()})
    _cleanup(src, tgt)


def one_manager(ctx, rng, reg, info):
    import dd.bdd as _b
    src, sp, names, tabs, hs, reordered = make_source(
        rng, reg, False, rng.randint(1, 4))
    src.raw.roots = {h for h in hs}
    if rng.random() < 0.5:
        # some unreferenced nodes too
        build(src.raw, random_table(rng, sp), sp)
    fn = f'm{os.getpid()}.p'
    src.raw._dump_manager(fn)
    ctx.counters['fmt_manager'] += 1
    ctx.case(any(0 < t < sp.full for t in tabs), 'manager',
             tuple(src.raw.vars.items()), tuple(tabs))
    info.update(fmt='manager', vars=dict(src.raw.vars))
    new = _b.BDD._load_manager(fn)
    os.remove(fn)
    ctx.counters['accepted'] += 1
    for attr in ('vars', '_succ', '_ref', '_pred', '_min_free', 'roots',
                 'max_nodes', '_level_to_var'):
        a, b = getattr(new, attr), getattr(src.raw, attr)
        if a != b:
            raise Violation('_load_manager', 'manager-not-reproduced',
                            dict(info, attr=attr, got=repr(a)[:200],
                                 want=repr(b)[:200]))
    monitors.check_structure(new)
    monitors.check_order_maps(new)
    monitors.check_canonicity(new)
    monitors.check_ledger(new, src.ext)
    den = Denoter(new, sp)
    for h, t in zip(hs, tabs):
        if den(h) != t:
            raise Violation('_load_manager',
                            'loaded-root-denotes-other-function', info)
        ctx.counters['roots_checked'] += 1
    # the loaded manager works: release everything, only the terminal
    for h in hs:
        new.decref(h)
    new.collect_garbage()
    if set(new._succ) != {1}:
        raise Violation('_load_manager', 'nodes-left-after-release', info)
    src.raw.roots = set()
    _cleanup(src, src)


def _cleanup(src, tgt):
    for s in {id(src): src, id(tgt): tgt}.values():
        s.release()


def _reordering_due(ctx, rng, tgt):
    """In a third of the loads the receiving manager has dynamic
    reordering enabled and due at the next node creation."""
    if rng.random() >= 0.33:
        return False
    tgt.raw._last_len = 1
    ctx.counters['loads_with_reordering_due'] += 1
    return True


def _reordering_after(due, tgt, site, info):
    if not due:
        return
    still = tgt.raw.configure(reordering=False)['reordering']
    if not still:
        raise Violation(site, 'reordering-switched-off', info)


def run_shard(ctx, spec):
    if spec['kind'] == 'big':
        from vf import big
        return ctx.guard('big', big.run, ctx, spec, case=spec)
    ctx.guard(spec['kind'], scen, ctx, spec, case=spec)
