"""C15 - MDD conversion and MDD operations preserve meaning."""
import collections
import itertools
import random

from vf import monitors
from vf.common import Violation
from vf.oracle import Space, Denoter, build, random_table, BINOPS

RULE = (
    'conversion: 1-3 integer variables of 1-3 bits each (<= 6 bits), '
    'every order of the integer variables, random initial bit orders '
    '(bits of one integer not adjacent, most significant first, ...), '
    '1-4 referenced BDD functions including complemented, constant and '
    'shared ones, plus unreferenced garbage; judged on every integer '
    'assignment: value of the MDD reference (sign applied) == value of '
    'the BDD reference on the encoded bits (first listed bit least '
    'significant); BDD references keep table and count after the '
    'conversion (which reorders the bits). MDD operations: managers with '
    'domains of size 2-4, random functions built node by node, every '
    'apply symbol and ite judged pointwise on the table over all integer '
    'assignments; stored MDD nodes denote pairwise different functions '
    'up to complement and equal tables give equal references; '
    'histories of operate / incref / decref / collect with a ledger: '
    'count == in-edges + external, and after collect_garbage exactly the '
    'nodes reachable from externally referenced ones (and the terminal) '
    'remain. Non-trivial: a non-constant function that depends on >= 2 '
    'bits; distinct by hash of (dvars, bit order, tables).')


def plan(tier, seed):
    specs = []
    n = 64 if tier == 'thorough' else 8
    for k in range(n):
        specs.append(dict(kind='convert', sub=k,
                          count=30000 if tier == 'thorough' else 500,
                          hashseed=k))
    for k in range(n):
        specs.append(dict(kind='ops', sub=k,
                          count=6000 if tier == 'thorough' else 100,
                          hashseed=k))
    for k in range(4 if tier == 'quick' else 32):
        specs.append(dict(kind='ops', sub=1000 + k, wide=True,
                          count=3 if tier == 'quick' else 25,
                          hashseed=k))
    meta = dict(
        rule=RULE,
        require=['conversions_with_dynamic_reordering', 'wide_mdd_managers', 'conversions', 'converted_roots', 'integer_assignments',
                 'mdd_op_results', 'mdd_collections', 'mdd_nodes_freed',
                 'mdd_canonicity_checks', 'complemented_roots'],
        assumptions=['integer variable of b bits has 2**b values',
                     'truth-table model in vf/oracle.py'],
        timeout=1500 if tier == 'quick' else 5400)
    return specs, meta


# ------------------------------------------------------------ MDD oracle
class Dom:
    """Mixed-radix assignments over integer variables (name -> size),
    indexed in MDD level order for evaluation."""

    def __init__(self, mdd):
        self.mdd = mdd
        self.vars = sorted(mdd.vars, key=lambda v: mdd.vars[v]['level'])
        self.sizes = [mdd.vars[v]['len'] for v in self.vars]
        self.n = 1
        for s in self.sizes:
            self.n *= s
        self.full = (1 << self.n) - 1
        # digit of assignment k at level j
        self.stride = []
        st = 1
        for s in self.sizes:
            self.stride.append(st)
            st *= s

    def digit(self, k, level):
        return (k // self.stride[level]) % self.sizes[level]

    def node_table(self, u, memo):
        """Table of positive MDD node u."""
        if u in memo:
            return memo[u]
        if u == 1:
            memo[u] = self.full
            return self.full
        t = self.mdd._succ[u]
        level, kids = t[0], t[1:]
        if len(kids) != self.sizes[level]:
            raise Violation('mdd', 'MDD-wrong-arity', (u, t))
        ktabs = [self.table(c, memo) for c in kids]
        res = 0
        for k in range(self.n):
            if (ktabs[self.digit(k, level)] >> k) & 1:
                res |= 1 << k
        memo[u] = res
        return res

    def table(self, ref, memo):
        t = self.node_table(abs(ref), memo)
        return (self.full ^ t) if ref < 0 else t

    def build(self, t):
        """Node-by-node construction of table `t` in the MDD."""
        mdd = self.mdd
        memo = dict()

        def rec(level, t):
            if t == self.full:
                return 1
            if t == 0:
                return -1
            key = (level, t)
            if key in memo:
                return memo[key]
            # cofactors wrt the variable at `level`
            cof = []
            size = self.sizes[level]
            st = self.stride[level]
            for d in range(size):
                c = 0
                for k in range(self.n):
                    k2 = k + (d - (k // st) % size) * st
                    if (t >> k2) & 1:
                        c |= 1 << k
                cof.append(c)
            kids = [rec(level + 1, c) for c in cof]
            r = mdd.find_or_add(level, *kids)
            memo[key] = r
            return r
        return rec(0, t)


def mdd_structure(mdd, ext):
    """Structure, canonicity and ledger of an MDD."""
    succ, pred, ref = mdd._succ, mdd._pred, mdd._ref
    nlev = len(mdd.vars)
    deg = collections.Counter()
    for u, t in succ.items():
        if u == 1:
            continue
        level, kids = t[0], t[1:]
        if not (0 <= level < nlev):
            raise Violation('mdd', 'MDD-level-out-of-range', (u, t))
        # (which edge is kept regular is a choice of normal form, not
        # part of the property: canonicity is judged semantically)
        if len(set(kids)) == 1:
            raise Violation('mdd', 'MDD-redundant-node', (u, t))
        for c in kids:
            if abs(c) not in succ:
                raise Violation('mdd', 'MDD-dangling-child', (u, t))
            if abs(c) != 1 and succ[abs(c)][0] <= level:
                raise Violation('mdd', 'MDD-not-ordered', (u, t))
            deg[abs(c)] += 1
        if pred.get(t) != u:
            raise Violation('mdd', 'MDD-pred-not-inverse', (u, t))
    if set(ref) != set(succ):
        raise Violation('mdd', 'MDD-ref-keys', None)
    for u, c in ref.items():
        want = deg.get(u, 0) + ext.get(u, 0)
        if c != want:
            raise Violation('mdd', 'MDD-count-mismatch',
                            dict(node=u, count=c, in_edges=deg.get(u, 0),
                                 external=ext.get(u, 0)))
    for k, w in mdd._ite_table.items():
        for x in tuple(k) + (w,):
            if abs(x) not in succ:
                raise Violation('mdd', 'MDD-cache-mentions-freed-node',
                                (k, w))


def mdd_canonicity(mdd, dom):
    memo = dict()
    seen = dict()
    for u in mdd._succ:
        if u == 1:
            continue
        t = dom.node_table(u, memo)
        if t in (0, dom.full):
            raise Violation('mdd', 'MDD-constant-node', u)
        key = min(t, dom.full ^ t)
        if key in seen:
            raise Violation('mdd', 'MDD-two-nodes-same-function',
                            (u, seen[key]))
        seen[key] = u
    return memo


def mdd_reachable(mdd, roots):
    seen = {1}
    stack = [abs(r) for r in roots]
    while stack:
        u = stack.pop()
        if u in seen:
            continue
        seen.add(u)
        stack.extend(abs(c) for c in mdd._succ[u][1:])
    return seen


# ------------------------------------------------------------ conversion
def convert(ctx, spec):
    import dd.bdd as _b
    import dd.mdd as _m
    rng = ctx.rng('convert', spec['sub'])
    for it in range(spec['count']):
        nint = rng.randint(1, 3)
        widths = [rng.randint(1, 3) for _ in range(nint)]
        while sum(widths) > 6:
            widths[rng.randrange(nint)] = 1
        ints = [f'I{i}' for i in range(nint)]
        bits = {v: [f'{v}_{j}' for j in range(w)]
                for v, w in zip(ints, widths)}
        allbits = [b for v in ints for b in bits[v]]
        ilevels = list(range(nint))
        rng.shuffle(ilevels)
        dvars = {v: dict(level=l, len=2 ** len(bits[v]), bitnames=bits[v])
                 for v, l in zip(ints, ilevels)}
        border = allbits[:]
        rng.shuffle(border)
        bdd = _b.BDD({b: i for i, b in enumerate(border)})
        sp = Space(allbits)
        k = rng.randint(1, 4)
        tabs = []
        for _ in range(k):
            r = rng.random()
            if r < 0.08:
                t = rng.choice((0, sp.full))
            elif r < 0.2 and tabs:
                t = sp.NOT(rng.choice(tabs))
            else:
                t = random_table(rng, sp, kind=0.2 + 0.8 * rng.random())
            tabs.append(t)
        refs = []
        ext = collections.Counter()
        for t in tabs:
            u = build(bdd, t, sp)
            bdd.incref(u)
            ext[abs(u)] += 1
            refs.append(u)
        for _ in range(rng.randint(0, 2)):
            build(bdd, random_table(rng, sp), sp)     # garbage
        info = dict(dvars=dvars, bit_order=border,
                    tables=[sp.fmt(t) for t in tabs])
        dynamic = rng.random() < 0.3
        if dynamic:
            # the BDD manager reorders by itself (enabled once the
            # functions are there; threshold at or near its size)
            starts0 = _b.REORDER_STARTS
            _b.REORDER_STARTS = rng.randint(2, 12)
            bdd.configure(reordering=True)
            _b.REORDER_STARTS = starts0
            if rng.random() < 0.5:
                bdd._last_len = max(1, len(bdd) // 2)
            info['dynamic_reordering'] = True
            ctx.counters['conversions_with_dynamic_reordering'] += 1
        try:
            ok, _ = ctx.guard('bdd_to_mdd', convert_one, ctx, _m, bdd, sp,
                              dvars, tabs, refs, ext, info, case=info)
        finally:
            bdd.configure(reordering=False)
        ctx.case(any(len(sp.support(t)) >= 2 for t in tabs), 'convert',
                 tuple(sorted((v, d['level'], d['len'])
                              for v, d in dvars.items())),
                 tuple(border), tuple(tabs))
        if it == 0:
            ctx.sample(dict(kind='convert', **info))
        for u in refs:
            bdd.decref(u)
        if not ok and len(ctx.violations) > 6:
            return


def convert_one(ctx, _m, bdd, sp, dvars, tabs, refs, ext, info):
    mdd, umap = _m.bdd_to_mdd(bdd, dvars)
    ctx.counters['conversions'] += 1
    # the BDD side is intact (the conversion reorders its bits)
    monitors.check_structure(bdd)
    monitors.check_order_maps(bdd)
    den = monitors.check_canonicity(bdd)
    monitors.check_ledger(bdd, ext)
    monitors.check_held(bdd, list(zip(refs, tabs)), den)
    dom = Dom(mdd)
    memo = dict()
    # bit-assignment k  <->  integer assignment
    ivars = dom.vars

    def int_index(k):
        idx = 0
        for j, v in enumerate(ivars):
            val = 0
            for p, b in enumerate(dvars[v]['bitnames']):
                if (k >> sp.index[b]) & 1:
                    val |= 1 << p
            idx += val * dom.stride[j]
        return idx
    idx = [int_index(k) for k in range(sp.size)]
    for u, t in zip(refs, tabs):
        if abs(u) not in umap:
            raise Violation('bdd_to_mdd', 'referenced-node-not-converted',
                            dict(info, node=u))
        v = umap[abs(u)]
        if u < 0:
            v = -v
            ctx.counters['complemented_roots'] += 1
        if abs(v) not in mdd._succ:
            raise Violation('bdd_to_mdd', 'result-not-an-MDD-node', v)
        mt = dom.table(v, memo)
        for k in range(sp.size):
            ctx.counters['integer_assignments'] += 1
            if ((mt >> idx[k]) & 1) != ((t >> k) & 1):
                vals = {x: dom.digit(idx[k], j)
                        for j, x in enumerate(ivars)}
                raise Violation(
                    'bdd_to_mdd', 'MDD-value-differs-from-BDD',
                    dict(info, root=sp.fmt(t), integers=vals,
                         bdd_value=(t >> k) & 1, mdd_value=(mt >> idx[k]) & 1))
        ctx.counters['converted_roots'] += 1
    mdd_structure(mdd, dict())
    mdd_canonicity(mdd, dom)
    ctx.counters['mdd_canonicity_checks'] += 1


# ------------------------------------------------------------ operations
def ops(ctx, spec):
    import dd.mdd as _m
    rng = ctx.rng('ops', spec['sub'])
    syms = sorted(BINOPS)
    for it in range(spec['count']):
        nint = rng.randint(1, 3)
        sizes = [rng.choice((2, 2, 3, 4)) for _ in range(nint)]
        if spec.get('wide'):
            # managers of hundreds to thousands of MDD nodes
            nint = rng.randint(4, 5)
            sizes = [rng.choice((3, 4, 4, 5, 6)) for _ in range(nint)]
            ctx.counters['wide_mdd_managers'] += 1
        levels = list(range(nint))
        rng.shuffle(levels)
        dvars = {f'I{i}': dict(level=l, len=s)
                 for i, (l, s) in enumerate(zip(levels, sizes))}
        info = dict(dvars=dvars)
        ok, _ = ctx.guard('mdd', ops_one, ctx, _m, rng, dvars, syms, info,
                          case=info)
        if it == 0:
            ctx.sample(dict(kind='ops', dvars=dvars))
        if not ok and len(ctx.violations) > 6:
            return


def ops_one(ctx, _m, rng, dvars, syms, info):
    mdd = _m.MDD(dvars)
    dom = Dom(mdd)
    ext = collections.Counter()
    pool = []   # (ref, table)

    def table(ref):
        return dom.table(ref, dict())

    def hold(r, t):
        mdd.incref(r)
        ext[abs(r)] += 1
        pool.append((r, t))

    def model(sym, a, b):
        full = dom.full
        return dict(AND=a & b, OR=a | b, XOR=a ^ b,
                    IMPLIES=(full ^ a) | b, EQUIV=full ^ a ^ b,
                    DIFF=a & (full ^ b))[BINOPS[sym]]

    def check(site):
        try:
            mdd_structure(mdd, ext)
            memo = mdd_canonicity(mdd, dom)
            ctx.counters['mdd_canonicity_checks'] += 1
            for r, t in pool:
                if abs(r) not in mdd._succ:
                    raise Violation(site, 'MDD-held-reference-freed', r)
                if dom.table(r, memo) != t:
                    raise Violation(site,
                                    'MDD-held-reference-changed-meaning', r)
            # equal tables <=> equal references among held
            seen = dict()
            for r, t in pool:
                if seen.setdefault(t, r) != r:
                    raise Violation(site,
                                    'MDD-same-function-different-reference',
                                    (r, seen[t]))
        except Violation as v:
            v.site = site
            v.detail = dict(info, detail=v.detail)
            raise
    for step in range(30):
        r = rng.random()
        if len(pool) < 2 or r < 0.2:
            t = rng.getrandbits(dom.n)
            if rng.random() < 0.3:
                # a function of one variable
                j = rng.randrange(len(dom.vars))
                vals = [rng.random() < 0.5 for _ in range(dom.sizes[j])]
                t = 0
                for k in range(dom.n):
                    if vals[dom.digit(k, j)]:
                        t |= 1 << k
            u = dom.build(t)
            if table(u) != t:
                raise Violation('mdd.find_or_add', 'wrong-result',
                                dict(info, t=t))
            hold(u, t)
            site = 'mdd.find_or_add'
        elif r < 0.55:
            sym = rng.choice(syms)
            (a, ta), (b, tb) = rng.choice(pool), rng.choice(pool)
            u = mdd.apply(sym, a, b)
            want = model(sym, ta, tb)
            ctx.counters['mdd_op_results'] += 1
            ctx.case(True, 'mdd-op', tuple(dom.sizes), sym, ta, tb)
            if table(u) != want:
                raise Violation('mdd.apply', 'wrong-result',
                                dict(info, op=sym, u=ta, v=tb))
            hold(u, want)
            site = 'mdd.apply'
        elif r < 0.7:
            (g, tg), (a, ta), (b, tb) = (rng.choice(pool), rng.choice(pool),
                                        rng.choice(pool))
            u = mdd.ite(g, a, b) if rng.random() < 0.5 else \
                mdd.apply('ite', g, a, b)
            want = (tg & ta) | ((dom.full ^ tg) & tb)
            ctx.counters['mdd_op_results'] += 1
            ctx.case(True, 'mdd-ite', tuple(dom.sizes), tg, ta, tb)
            if table(u) != want:
                raise Violation('mdd.ite', 'wrong-result',
                                dict(info, g=tg, u=ta, v=tb))
            hold(u, want)
            site = 'mdd.ite'
        elif r < 0.75:
            a, ta = rng.choice(pool)
            u = mdd.apply(rng.choice(('not', '~', '!')), a)
            if table(u) != dom.full ^ ta:
                raise Violation('mdd.apply-not', 'wrong-result', info)
            hold(u, dom.full ^ ta)
            site = 'mdd.apply-not'
        elif r < 0.9:
            i = rng.randrange(len(pool))
            u, t = pool.pop(i)
            mdd.decref(u)
            ext[abs(u)] -= 1
            if not ext[abs(u)]:
                del ext[abs(u)]
            site = 'mdd.decref'
        else:
            before = set(mdd._succ)
            mdd.collect_garbage()
            ctx.counters['mdd_collections'] += 1
            ctx.counters['mdd_nodes_freed'] += len(before) - len(mdd._succ)
            want = mdd_reachable(mdd, [u for u, c in ext.items() if c > 0])
            if set(mdd._succ) != want:
                raise Violation('mdd.collect_garbage', 'MDD-GC-not-exact',
                                dict(info,
                                     extra=sorted(set(mdd._succ) - want),
                                     missing=sorted(want - set(mdd._succ))))
            site = 'mdd.collect_garbage'
        check(site)
    ctx.note('mdd_nodes_hundreds', len(mdd._succ) // 100)
    # release all: only the terminal remains
    for u, t in pool:
        mdd.decref(u)
    mdd.collect_garbage()
    if set(mdd._succ) != {1}:
        raise Violation('mdd.collect_garbage',
                        'MDD-nodes-left-after-release', info)


def run_shard(ctx, spec):
    fn = dict(convert=convert, ops=ops)[spec['kind']]
    ctx.guard(spec['kind'], fn, ctx, spec, case=spec)
